"""seeded graph families used as solver targets; a graph is (n, sorted list of edges (a<b)) on vertices 0..n-1"""
import itertools


def _norm(n, edges):
    return n, sorted({(min(a, b), max(a, b)) for a, b in edges if a != b})


def er(rng, n, p):
    return _norm(n, [(a, b) for a, b in itertools.combinations(range(n), 2) if rng.random() < p])


def path(n):
    return _norm(n, [(i, i + 1) for i in range(n - 1)])


def star(n):
    return _norm(n, [(0, i) for i in range(1, n)])


def cycle(n):
    return _norm(n, [(i, (i + 1) % n) for i in range(n)] if n >= 3 else [(i, i + 1) for i in range(n - 1)])


def complete(n):
    return _norm(n, list(itertools.combinations(range(n), 2)))


def tree(rng, n):
    return _norm(n, [(rng.randrange(i), i) for i in range(1, n)])


def rgs(m):
    """repeater graph state: complete core of m vertices, each with one leaf; n = 2m"""
    core = list(itertools.combinations(range(m), 2))
    return _norm(2 * m, core + [(i, m + i) for i in range(m)])


def union(g1, g2):
    n1, e1 = g1
    n2, e2 = g2
    return _norm(n1 + n2, e1 + [(a + n1, b + n1) for a, b in e2])


def relabel(rng, g):
    n, edges = g
    perm = list(range(n))
    rng.shuffle(perm)
    return _norm(n, [(perm[a], perm[b]) for a, b in edges])


def is_connected(g):
    n, edges = g
    if n == 0:
        return True
    adj = {i: set() for i in range(n)}
    for a, b in edges:
        adj[a].add(b)
        adj[b].add(a)
    seen = {0}
    stack = [0]
    while stack:
        v = stack.pop()
        for w in adj[v]:
            if w not in seen:
                seen.add(w)
                stack.append(w)
    return len(seen) == n


def isolated(g):
    n, edges = g
    deg = [0] * n
    for a, b in edges:
        deg[a] += 1
        deg[b] += 1
    return [v for v in range(n) if deg[v] == 0]


FAMS = ["er", "er", "er", "path", "star", "cycle", "complete", "tree", "rgs", "union", "iso"]


def random_graph(rng, nmin, nmax, connected=False, allow_isolated=True, fams=None):
    """swarm-chosen family; retries until constraints are met"""
    for _ in range(200):
        n = rng.randint(nmin, nmax)
        fam = rng.choice(fams or FAMS)
        if fam == "er":
            g = er(rng, n, rng.choice([0.2, 0.35, 0.5, 0.7, 0.9]))
        elif fam == "path":
            g = path(n)
        elif fam == "star":
            g = star(n)
        elif fam == "cycle":
            g = cycle(n)
        elif fam == "complete":
            g = complete(n)
        elif fam == "tree":
            g = tree(rng, n)
        elif fam == "rgs":
            if n < 4:
                continue
            g = rgs(n // 2)
        elif fam == "union":
            if n < 4:
                continue
            k = rng.randint(2, n - 2)
            g = union(random_graph(rng, k, k, connected=True)[0], random_graph(rng, n - k, n - k, connected=True)[0])
        else:
            if n < 2:
                g = (1, [])
            else:
                k = rng.randint(1, n - 1)
                g = union(random_graph(rng, k, k, connected=False, allow_isolated=False)[0] if k > 1 else (1, []), (n - k, []))
        if g[0] < nmin or g[0] > nmax:
            continue
        if connected and not is_connected(g):
            continue
        if not allow_isolated and isolated(g) and g[0] > 0:
            continue
        return relabel(rng, g), fam
    return relabel(rng, path(max(nmin, 2))), "path"


def to_nx(g, edge_order_seed=None):
    """networkx graph on vertices 0..n-1 inserted in sorted order; with edge_order_seed the edges are inserted in a
    shuffled order and orientation (the same labelled graph; only networkx's internal adjacency order differs)"""
    import networkx as nx
    import random as _r

    n, edges = g
    G = nx.Graph()
    G.add_nodes_from(range(n))
    edges = [tuple(e) for e in edges]
    if edge_order_seed is not None:
        rr = _r.Random(edge_order_seed)
        rr.shuffle(edges)
        edges = [(b, a) if rr.random() < 0.5 else (a, b) for a, b in edges]
    G.add_edges_from(edges)
    return G

"""
"Does this circuit generate |G> (x) |0..0>_emitters on every measurement-outcome branch?"  Shared oracle of C02, C10
(and C19's honesty check).  Three judges per leaf of the outcome tree:
  ref  - textbook semantics of the circuit's operation list on the state-vector reference (no graphiq simulation)
  stab - graphiq StabilizerCompiler with the outcome RNG scripted by the simulator
  dm   - graphiq DensityMatrixCompiler likewise (only when the register count keeps matrices small)
"""
import random

import numpy as np

from graphiq.backends.density_matrix.compiler import DensityMatrixCompiler
from graphiq.backends.stabilizer.compiler import StabilizerCompiler

from sim import gq
from sim.outcomes import sweep
from sim.ref import chp, sv
from sim.ref.prog import run_reference
from sim.seam import OutcomeScript, OwnedRNG

DM_MAX_QUBITS = 7


def circuit_specs(circ):
    return [s for s in (gq.spec_of(op) for op in circ.sequence()) if s is not None]


def target_vector(n, edges, ne):
    psi = sv.graph_state(n, edges).psi
    if ne:
        e0 = np.zeros(2**ne, dtype=complex)
        e0[0] = 1
        psi = np.kron(psi, e0)
    return psi


def target_stab(n, edges, ne):
    s = chp.graph_stab(n, edges)
    if ne:
        s.tensor(chp.Stab(ne))
    return s


def generates(ctx, circ, n, edges, sig, max_leaves=16, seed=0, use_dm=True, label=""):
    """returns True iff every judged leaf gives the target; records at most one violation"""
    ne, np_, nc = circ.n_emitters, circ.n_photons, circ.n_classical
    if np_ != n:
        ctx.violate("G_register_count", -1, f"{label}circuit has {np_} photons for a target on {n} vertices", sig)
        return False
    specs = circuit_specs(circ)
    if any(s[0] == "?" for s in specs):
        ctx.violate("G_unknown_operation", -1, f"{label}circuit contains {[s for s in specs if s[0] == '?'][:3]}", sig)
        return False
    N = n + ne
    want_psi = target_vector(n, edges, ne)
    want_stab = target_stab(n, edges, ne).canon()
    do_dm = use_dm and N <= DM_MAX_QUBITS
    state = {"ok": True}

    def run(bits, fallback):
        script_ref = OutcomeScript(bits, fallback=fallback)
        used = []

        def chooser(k, rnd, p0):
            if not rnd:
                return 0
            v = script_ref.next("ref")
            used.append(v)
            return v

        ref, creg, trace, _ = run_reference(ne, np_, max(nc, 1), specs, chooser)
        ctx.steps += 1
        f = abs(np.vdot(want_psi, ref.psi)) ** 2
        if abs(f - 1) > 1e-8:
            ctx.violate("G_state_reference", -1, f"{label}textbook semantics of the circuit give fidelity {f:.6f} with |G>(x)|0..0> on outcome branch {used} (n={n}, emitters={ne})", dict(sig, judge="ref"))
            state["ok"] = False
            return None
        for backend in ("stab", "dm") if do_dm else ("stab",):
            comp = StabilizerCompiler() if backend == "stab" else DensityMatrixCompiler()
            comp.measurement_determinism = "probabilistic"
            script = OutcomeScript(used, fallback=0)
            try:
                with OwnedRNG(random.Random(1), outcomes=script, ctx=ctx):
                    st = comp.compile(circ)
            except Exception as e:
                ctx.violate("G_compile_exception", -1, f"{label}{backend} compile raised {type(e).__name__}: {e}", dict(sig, judge=backend, exc=type(e).__name__))
                state["ok"] = False
                return None
            ctx.steps += 1
            if backend == "stab":
                xs, zs, ss, ips = gq.tableau_rows(st.rep_data.data)
                try:
                    got = chp.from_bit_rows(N, xs, zs, ss).canon()
                except ArithmeticError:
                    got = None
                good = got == want_stab and not any(ips)
            else:
                rho = np.asarray(st.rep_data.data)
                good = rho.shape == (2**N, 2**N) and np.allclose(rho, np.outer(want_psi, want_psi.conj()), atol=1e-8)
            if not good:
                ctx.violate("G_state_backend", -1, f"{label}{backend} backend does not end in |G>(x)|0..0> on outcome branch {used} (n={n}, emitters={ne})", dict(sig, judge=backend))
                state["ok"] = False
                return None
        ctx.fault("scripted_outcome", len(used))
        return used

    leaves, complete, aborted = sweep(run, max_leaves=max_leaves, seed=seed)
    if complete:
        ctx.fault("branch_sweep")
    return state["ok"]

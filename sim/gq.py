"""
Adapters between the simulator's JSON-able op specs and graphiq objects (the only module, together with sim/props/*,
that imports graphiq).

op spec (list):  ["g1", name, t, r]                 one-qubit gate name in I,H,P,Pd,X,Y,Z on register (t,r)
                 ["w",  [names...], t, r]           OneQubitGateWrapper(list) -- matrix product of the list
                 ["g2", name, ct, cr, tt, tr]       CNOT / CZ
                 ["cc", name, ct, cr, tt, tr, c]    CCNOT / CCZ / MCR  (classical-CNOT, classical-CZ, measure-CNOT-reset)
                 ["m",  t, r, c]                    MeasurementZ
"""
import numpy as np

from graphiq.circuit import ops
from graphiq.circuit.circuit_dag import CircuitDAG

G1 = {
    "I": ops.Identity,
    "H": ops.Hadamard,
    "P": ops.Phase,
    "Pd": ops.PhaseDagger,
    "X": ops.SigmaX,
    "Y": ops.SigmaY,
    "Z": ops.SigmaZ,
}
G1_INV = {v: k for k, v in G1.items()}
G2 = {"CNOT": ops.CNOT, "CZ": ops.CZ}
G2_INV = {v: k for k, v in G2.items()}
CC = {"CCNOT": ops.ClassicalCNOT, "CCZ": ops.ClassicalCZ, "MCR": ops.MeasurementCNOTandReset}
CC_INV = {v: k for k, v in CC.items()}
NAMES1 = list(G1)
SHARED_LISTS = None  # set to a dict by a run that wants wrappers of equal gate sequences to share their list object


def make_op(spec):
    k = spec[0]
    if k == "g1":
        return G1[spec[1]](register=spec[3], reg_type=spec[2])
    if k == "w":
        if len(spec) > 4 and spec[4] in ("noise_after", "noise_before"):
            # a wrapper carrying ONE noise object for the whole wrapper (unwrap() then adds a noise-carrying Identity)
            import graphiq.noise.noise_models as nm

            noise = nm.DepolarizingNoise(0.1)
            noise.noise_parameters["After gate"] = spec[4] == "noise_after"
            return ops.OneQubitGateWrapper([G1[n] for n in spec[1]], register=spec[3], reg_type=spec[2], noise=noise)
        if SHARED_LISTS is not None:
            # the caller builds every wrapper of the same gate sequence from ONE list object (as user code that keeps a
            # list like [Hadamard, Phase] around does)
            # (a handful of list objects per run: the first wrapper that asks for a slot defines its gate sequence)
            lst = SHARED_LISTS.setdefault(NAMES1.index(spec[1][0]) % 3, [G1[n] for n in spec[1]])
            return ops.OneQubitGateWrapper(lst, register=spec[3], reg_type=spec[2])
        return ops.OneQubitGateWrapper([G1[n] for n in spec[1]], register=spec[3], reg_type=spec[2])
    if k == "g2":
        return G2[spec[1]](control=spec[3], control_type=spec[2], target=spec[5], target_type=spec[4])
    if k == "cc":
        return CC[spec[1]](control=spec[3], control_type=spec[2], target=spec[5], target_type=spec[4], c_register=spec[6])
    if k == "m":
        return ops.MeasurementZ(register=spec[2], reg_type=spec[1], c_register=spec[3])
    raise ValueError(spec)


def spec_of(op):
    """inverse of make_op for an operation object found in a circuit (None for Input/Output).
    Registers are read from the base fields q_registers / q_registers_type / c_registers, which are what the DAG itself
    uses (for operations loaded by from_json the convenience fields control_type / reg_type can be stale)."""
    t = type(op)
    if isinstance(op, ops.InputOutputOperationBase):
        return None
    qr, qt, cr = list(op.q_registers), list(op.q_registers_type), list(op.c_registers)
    if t is ops.OneQubitGateWrapper:
        base = ["w", [G1_INV[c] for c in op.operations], qt[0], qr[0]]
        nz = op.noise
        if not isinstance(nz, list) and type(nz).__name__ != "NoNoise" and isinstance(getattr(nz, "noise_parameters", None), dict):
            base.append("noise_after" if nz.noise_parameters.get("After gate", True) else "noise_before")
        return base
    if t in G1_INV:
        return ["g1", G1_INV[t], qt[0], qr[0]]
    if t in G2_INV:
        return ["g2", G2_INV[t], qt[0], qr[0], qt[1], qr[1]]
    if t in CC_INV:
        return ["cc", CC_INV[t], qt[0], qr[0], qt[1], qr[1], cr[0]]
    if t is ops.MeasurementZ:
        return ["m", qt[0], qr[0], cr[0]]
    return ["?", t.__name__]


def qregs(spec):
    """quantum registers (type, idx) an op spec acts on, in q_registers order"""
    k = spec[0]
    if k in ("g1", "w"):
        return [(spec[2], spec[3])]
    if k in ("g2", "cc"):
        return [(spec[2], spec[3]), (spec[4], spec[5])]
    if k == "m":
        return [(spec[1], spec[2])]
    return []


def cregs(spec):
    if spec[0] == "cc":
        return [spec[6]]
    if spec[0] == "m":
        return [spec[3]]
    return []


def wire_nodes(circ, t, r):
    """follow the edges keyed '<t><r>' from the input node to the output node; returns list of nodes or raises"""
    key = f"{t}{r}"
    node = f"{t}{r}_in"
    out = [node]
    seen = {node}
    while node != f"{t}{r}_out":
        nxt = [e for e in circ.dag.out_edges(node, keys=True) if e[2] == key]
        if len(nxt) != 1:
            raise ValueError(f"wire {key}: node {node} has {len(nxt)} outgoing edges with this key")
        node = nxt[0][1]
        if node in seen:
            raise ValueError(f"wire {key}: revisits {node}")
        seen.add(node)
        out.append(node)
    return out


def circuit_wires(circ):
    """{(t, r): [spec of each op on the wire, in order]} read from the DAG"""
    res = {}
    for t, cnt in (("e", circ.n_emitters), ("p", circ.n_photons)):
        for r in range(cnt):
            nodes = wire_nodes(circ, t, r)[1:-1]
            res[(t, r)] = [(n, spec_of(circ.dag.nodes[n]["op"])) for n in nodes]
    return res


def tableau_rows(tab):
    """signed stabilizer rows of a graphiq CliffordTableau as python lists (x rows, z rows, signs, iphases)"""
    n = tab.n_qubits
    return (
        np.asarray(tab.stabilizer_x).astype(int).tolist(),
        np.asarray(tab.stabilizer_z).astype(int).tolist(),
        np.asarray(tab.phase[n:]).astype(int).tolist(),
        np.asarray(tab.iphase[n:]).astype(int).tolist(),
    )

"""
Textbook semantics of a circuit given as a list of primitive op specs (see sim/gq.py for the spec format), executed
on the state-vector reference.  Imports nothing from graphiq.

Conventions checked by the properties that use this: all registers start in |0>, photons are indexed before emitters,
a wrapper [A,B,C] denotes the matrix product A.B.C (C acts first), ClassicalCNOT/ClassicalCZ measure the control in Z,
store the outcome in the classical register and apply X/Z to the target iff the outcome is 1, MeasurementCNOTandReset
does the same with X and then leaves the control in |0>.
"""
import numpy as np

from sim.ref.sv import SV, G


def qindex(np_, t, r):
    return r if t == "p" else np_ + r


def wrapper_matrix(names):
    U = np.eye(2, dtype=complex)
    for nme in names:
        U = U @ G[nme]
    return U


def run_reference(ne, np_, nc, specs, chooser, psi0=None):
    """
    specs: primitive or wrapper op specs in execution order.
    chooser(k, is_random, p0) -> desired outcome bit for the k-th measurement (ignored when not random).
    returns (SV, cregs list, trace, csnaps): trace has one entry per measuring op
    (spec index, qubit, outcome, random, p0); csnaps[i] is the classical register tuple after op i
    """
    n = ne + np_
    s = SV(n, psi0)
    c = [0] * nc
    trace = []
    csnaps = []
    k = 0
    for i, sp in enumerate(specs):
        kind = sp[0]
        if kind == "g1":
            s.u1(qindex(np_, sp[2], sp[3]), sp[1])
        elif kind == "w":
            s.u1(qindex(np_, sp[2], sp[3]), wrapper_matrix(sp[1]))
        elif kind == "g2":
            a, b = qindex(np_, sp[2], sp[3]), qindex(np_, sp[4], sp[5])
            (s.cnot if sp[1] == "CNOT" else s.cz)(a, b)
        elif kind in ("cc", "m"):
            if kind == "m":
                q, creg = qindex(np_, sp[1], sp[2]), sp[3]
            else:
                q, creg = qindex(np_, sp[2], sp[3]), sp[6]
            p0 = s.prob0(q)
            rnd = s.is_random(q)
            want = chooser(k, rnd, p0)
            o, rnd2, p = s.measure(q, want)
            trace.append((i, q, o, rnd, p0))
            k += 1
            c[creg] = o
            if kind == "cc":
                tq = qindex(np_, sp[4], sp[5])
                if o == 1:
                    s.u1(tq, "Z" if sp[1] == "CCZ" else "X")
                if sp[1] == "MCR" and o == 1:
                    s.u1(q, "X")
        else:
            raise ValueError(f"unknown spec {sp}")
        csnaps.append(tuple(c))
    return s, c, trace, csnaps

"""
Textbook state-vector reference (imports nothing from graphiq).  Qubit 0 is the most significant tensor factor
(kron order), which is the convention of graphiq's density-matrix helpers and of "photons first, then emitters".
"""
import numpy as np

EPS = 1e-9
_s = 1 / np.sqrt(2)
G = {
    "I": np.eye(2, dtype=complex),
    "H": np.array([[_s, _s], [_s, -_s]], dtype=complex),
    "P": np.diag([1, 1j]).astype(complex),
    "Pd": np.diag([1, -1j]).astype(complex),
    "X": np.array([[0, 1], [1, 0]], dtype=complex),
    "Y": np.array([[0, -1j], [1j, 0]], dtype=complex),
    "Z": np.diag([1, -1]).astype(complex),
}


class SV:
    def __init__(self, n, psi=None):
        self.n = n
        if psi is None:
            psi = np.zeros(2**n, dtype=complex)
            psi[0] = 1
        self.psi = np.asarray(psi, dtype=complex).reshape(-1).copy()

    def copy(self):
        return SV(self.n, self.psi)

    def _t(self):
        return self.psi.reshape([2] * self.n) if self.n else self.psi.reshape(())

    def u1(self, q, U):
        if isinstance(U, str):
            U = G[U]
        t = np.tensordot(U, self._t(), axes=([1], [q]))
        self.psi = np.moveaxis(t, 0, q).reshape(-1)

    def cnot(self, c, t):
        assert c != t
        T = self._t().copy()
        idx = [slice(None)] * self.n
        idx[c] = 1
        sub = T[tuple(idx)]
        ax = t if t < c else t - 1
        T[tuple(idx)] = np.flip(sub, axis=ax)
        self.psi = T.reshape(-1)

    def cz(self, c, t):
        assert c != t
        T = self._t().copy()
        idx = [slice(None)] * self.n
        idx[c] = 1
        idx[t] = 1
        T[tuple(idx)] *= -1
        self.psi = T.reshape(-1)

    def prob0(self, q):
        T = self._t()
        idx = [slice(None)] * self.n
        idx[q] = 0
        return float(np.sum(np.abs(T[tuple(idx)]) ** 2))

    def is_random(self, q):
        p0 = self.prob0(q)
        return EPS < p0 < 1 - EPS

    def measure(self, q, want):
        """project qubit q; take `want` unless it has probability 0.  returns (outcome, was_random, p(outcome))"""
        p0 = self.prob0(q)
        if p0 > 1 - EPS:
            o, rnd = 0, False
        elif p0 < EPS:
            o, rnd = 1, False
        else:
            o, rnd = int(want), True
        T = self._t().copy()
        idx = [slice(None)] * self.n
        idx[q] = 1 - o
        T[tuple(idx)] = 0
        p = p0 if o == 0 else 1 - p0
        self.psi = T.reshape(-1) / np.sqrt(p)
        return o, rnd, p

    def reset(self, q, want):
        o, rnd, p = self.measure(q, want)
        if o == 1:
            self.u1(q, "X")
        return o, rnd, p

    def swap(self, a, b):
        self.psi = np.swapaxes(self._t(), a, b).reshape(-1)

    def insert(self, pos):
        """insert an unentangled |0> at position pos"""
        T = np.expand_dims(self._t(), pos)
        T = np.concatenate([T, np.zeros_like(T)], axis=pos)
        self.n += 1
        self.psi = T.reshape(-1)

    def unentangled(self, q):
        m = np.moveaxis(self._t(), q, 0).reshape(2, -1)
        r = m @ m.conj().T
        return abs(np.trace(r @ r).real - 1) < 1e-9

    def remove_projected(self, q, o):
        """drop qubit q which is known to be in |o>"""
        T = np.take(self._t(), o, axis=q)
        self.n -= 1
        self.psi = T.reshape(-1)
        nrm = np.linalg.norm(self.psi)
        self.psi = self.psi / nrm

    def tensor(self, other):
        self.psi = np.kron(self.psi, other.psi)
        self.n += other.n

    def rho(self):
        return np.outer(self.psi, self.psi.conj())

    def fidelity_with(self, other_psi):
        return float(abs(np.vdot(other_psi, self.psi)) ** 2)


def pauli_matrix(n, xbits, zbits):
    """xbits/zbits: sequences of 0/1 per qubit; (1,1) = Y (Aaronson-Gottesman convention)"""
    m = np.array([[1]], dtype=complex)
    for i in range(n):
        m = np.kron(m, {(0, 0): G["I"], (1, 0): G["X"], (1, 1): G["Y"], (0, 1): G["Z"]}[(int(xbits[i]), int(zbits[i]))])
    return m


def projector_from_rows(n, rows):
    """rows: list of (xbits, zbits, sign) -> projector onto the stabilized state"""
    rho = np.eye(2**n, dtype=complex)
    for x, z, s in rows:
        g = pauli_matrix(n, x, z) * (-1) ** int(s)
        rho = rho @ (np.eye(2**n) + g) / 2
    return rho


def graph_state(n, edges):
    s = SV(n)
    for q in range(n):
        s.u1(q, "H")
    for a, b in edges:
        s.cz(a, b)
    return s

"""graph reference (imports nothing from graphiq): adjacency as a tuple of int bitmasks, local complementation,
breadth-first LC-orbit enumeration"""


def adj_from_edges(n, edges):
    a = [0] * n
    for u, v in edges:
        if u != v:
            a[u] |= 1 << v
            a[v] |= 1 << u
    return tuple(a)


def adj_from_matrix(m):
    n = len(m)
    a = [0] * n
    for i in range(n):
        for j in range(n):
            if i != j and m[i][j]:
                a[i] |= 1 << j
    return tuple(a)


def is_simple_symmetric(m):
    n = len(m)
    for i in range(n):
        if m[i][i]:
            return False
        for j in range(n):
            if m[i][j] not in (0, 1) or m[i][j] != m[j][i]:
                return False
    return True


def edges_of(adj):
    n = len(adj)
    return [(i, j) for i in range(n) for j in range(i + 1, n) if adj[i] >> j & 1]


def local_complement(adj, v):
    """toggle every edge among the neighbours of v"""
    a = list(adj)
    nb = adj[v]
    for i in range(len(adj)):
        if nb >> i & 1:
            a[i] ^= nb & ~(1 << i)
    return tuple(a)


def lc_orbit(adj, cap=200000):
    """set of all adjacency tuples reachable by local complementations (None if it exceeds cap)"""
    seen = {adj}
    frontier = [adj]
    n = len(adj)
    while frontier:
        nxt = []
        for g in frontier:
            for v in range(n):
                if g[v] == 0:
                    continue
                h = local_complement(g, v)
                if h not in seen:
                    seen.add(h)
                    nxt.append(h)
                    if len(seen) > cap:
                        return None
        frontier = nxt
    return seen


def relabel(adj, perm):
    """vertex i becomes perm[i]"""
    n = len(adj)
    a = [0] * n
    for i in range(n):
        for j in range(n):
            if adj[i] >> j & 1:
                a[perm[i]] |= 1 << perm[j]
    return tuple(a)

"""
Stabilizer reference (imports nothing from graphiq): a pure n-qubit stabilizer state is a list of n commuting,
independent signed Pauli rows (x: int bitmask, z: int bitmask, s: 0/1), bit q <-> qubit q, (x,z)=(1,1) is Y.
All arithmetic is exact on Python ints, so n in the hundreds is cheap.  `canon()` returns a canonical form of the
*signed stabilizer group* (reduced row echelon basis with exact sign tracking): two states are equal iff their
canon() are equal.
"""


def _mul_phase(x1, z1, x2, z2):
    """exponent of i (mod 4) picked up when multiplying Pauli(x1,z1) * Pauli(x2,z2) (A-G g function, summed)"""
    y1 = x1 & z1
    X1 = x1 & ~z1
    Z1 = ~x1 & z1
    plus = (y1 & z2 & ~x2) | (X1 & z2 & x2) | (Z1 & x2 & ~z2)
    minus = (y1 & x2 & ~z2) | (X1 & z2 & ~x2) | (Z1 & x2 & z2)
    return (plus.bit_count() - minus.bit_count()) % 4


def row_mul(a, b):
    """a*b for commuting signed Paulis a, b (tuples x,z,s); raises if the phase is imaginary"""
    e = (2 * a[2] + 2 * b[2] + _mul_phase(a[0], a[1], b[0], b[1])) % 4
    if e & 1:
        raise ArithmeticError("product of anticommuting rows")
    return (a[0] ^ b[0], a[1] ^ b[1], e >> 1)


def commute(a, b):
    return ((a[0] & b[1]).bit_count() + (a[1] & b[0]).bit_count()) % 2 == 0


class Stab:
    def __init__(self, n, rows=None):
        self.n = n
        self.rows = [(0, 1 << q, 0) for q in range(n)] if rows is None else list(rows)

    def copy(self):
        return Stab(self.n, self.rows)

    # ---- gates (conjugation rules, textbook)
    def h(self, q):
        b = 1 << q
        out = []
        for x, z, s in self.rows:
            xb, zb = x & b, z & b
            if xb and zb:
                s ^= 1
            if bool(xb) != bool(zb):
                x ^= b
                z ^= b
            out.append((x, z, s))
        self.rows = out

    def s(self, q):
        b = 1 << q
        out = []
        for x, z, s in self.rows:
            if x & b:
                if z & b:
                    s ^= 1
                z ^= b
            out.append((x, z, s))
        self.rows = out

    def sdg(self, q):
        self.s(q)
        self.s(q)
        self.s(q)

    def x(self, q):
        b = 1 << q
        self.rows = [(x, z, s ^ (1 if z & b else 0)) for x, z, s in self.rows]

    def z(self, q):
        b = 1 << q
        self.rows = [(x, z, s ^ (1 if x & b else 0)) for x, z, s in self.rows]

    def y(self, q):
        b = 1 << q
        self.rows = [(x, z, s ^ (1 if bool(x & b) != bool(z & b) else 0)) for x, z, s in self.rows]

    def cnot(self, c, t):
        assert c != t
        bc, bt = 1 << c, 1 << t
        out = []
        for x, z, s in self.rows:
            xc, zc, xt, zt = bool(x & bc), bool(z & bc), bool(x & bt), bool(z & bt)
            if xc and zt and (xt == zc):
                s ^= 1
            if xc:
                x ^= bt
            if zt:
                z ^= bc
            out.append((x, z, s))
        self.rows = out

    def cz(self, c, t):
        self.h(t)
        self.cnot(c, t)
        self.h(t)

    def gate(self, name, *q):
        {"I": lambda *a: None, "H": self.h, "P": self.s, "Pd": self.sdg, "X": self.x, "Y": self.y, "Z": self.z,
         "CNOT": self.cnot, "CZ": self.cz}[name](*q)

    # ---- measurement
    def z_sign(self, q):
        """None if Z_q is not in the group (random outcome), else the outcome bit (group contains (-1)^bit Z_q)"""
        b = 1 << q
        if any(x & b for x, z, s in self.rows):
            return None
        return self._solve(0, b)

    def _solve(self, tx, tz):
        """sign bit r such that (-1)^r P(tx,tz) is in the group; P must commute with every row and be in the span"""
        rows = self.echelon()
        t = (tx, tz, 0)
        for (px, pz), r in rows:
            if (t[0] & px) or (t[1] & pz):
                t = row_mul(t, r)
        if t[0] or t[1]:
            raise ArithmeticError("target not in the stabilizer group")
        return t[2]

    def echelon(self):
        """list of ((pivot_x_mask, pivot_z_mask), row) in reduced row echelon form; pivot order: x bits 0..n-1 then z"""
        rows = list(self.rows)
        res = []
        used = [False] * len(rows)
        for kind in (0, 1):
            for q in range(self.n):
                b = 1 << q
                piv = None
                for i, r in enumerate(rows):
                    if not used[i] and (r[kind] & b):
                        piv = i
                        break
                if piv is None:
                    continue
                used[piv] = True
                pr = rows[piv]
                for i, r in enumerate(rows):
                    if i != piv and (r[kind] & b):
                        rows[i] = row_mul(r, pr)
                res.append((kind, b, piv))
        out = []
        for kind, b, piv in res:
            out.append(((b, 0) if kind == 0 else (0, b), rows[piv]))
        self._rank = len(out)
        return out

    def canon(self):
        e = self.echelon()
        return (self.n, tuple(r for _, r in e))

    def is_valid(self):
        for i, a in enumerate(self.rows):
            for b in self.rows[i + 1 :]:
                if not commute(a, b):
                    return False
        return len(self.echelon()) == self.n

    def measure(self, q, want):
        """returns (outcome, was_random)"""
        b = 1 << q
        anti = [i for i, r in enumerate(self.rows) if r[0] & b]
        if not anti:
            return self._solve(0, b), False
        p = anti[0]
        pr = self.rows[p]
        for i in anti[1:]:
            self.rows[i] = row_mul(self.rows[i], pr)
        self.rows[p] = (0, b, int(want))
        return int(want), True

    def reset(self, q, want):
        o, rnd = self.measure(q, want)
        if o == 1:
            self.x(q)
        return o, rnd

    # ---- structure
    def swap(self, a, b):
        if a == b:
            return
        ba, bb = 1 << a, 1 << b

        def sw(v):
            va, vb = bool(v & ba), bool(v & bb)
            if va != vb:
                v ^= ba | bb
            return v

        self.rows = [(sw(x), sw(z), s) for x, z, s in self.rows]

    @staticmethod
    def _ins(v, pos):
        low = v & ((1 << pos) - 1)
        return ((v >> pos) << (pos + 1)) | low

    @staticmethod
    def _del(v, pos):
        low = v & ((1 << pos) - 1)
        return ((v >> (pos + 1)) << pos) | low

    def insert(self, pos):
        self.rows = [(self._ins(x, pos), self._ins(z, pos), s) for x, z, s in self.rows]
        self.n += 1
        self.rows.insert(pos, (0, 1 << pos, 0))

    def entangled(self, q):
        """True iff qubit q is entangled with the rest: no non-identity group element is supported on q alone.
        (kernel of 'restrict to the other qubits' on the group has dimension n - rank(other parts); it is 0 or 1)"""
        b = 1 << q
        return _rank([((x & ~b) << self.n) | (z & ~b) for x, z, s in self.rows]) == self.n

    def remove_measured(self, q):
        """drop qubit q, which must be in a Z eigenstate (±Z_q in the group)"""
        b = 1 << q
        assert not any(x & b for x, z, s in self.rows)
        zq = (0, b, self._solve(0, b))
        basis, ind = [], []
        for cand in [zq] + self.rows:  # independent generating subset that contains zq itself
            v = (cand[0] << self.n) | cand[1]
            for bv in basis:
                v = min(v, v ^ bv)
            if v:
                basis.append(v)
                ind.append(cand)
        assert len(ind) == self.n and ind[0] == zq
        out = []
        for rr in ind[1:]:
            if rr[1] & b:
                rr = row_mul(rr, zq)
            out.append((self._del(rr[0], q), self._del(rr[1], q), rr[2]))
        self.rows = out
        self.n -= 1

    def tensor(self, other):
        sh = self.n
        self.rows = self.rows + [(x << sh, z << sh, s) for x, z, s in other.rows]
        self.n += other.n

    # ---- conversions used by oracles
    def bits(self):
        """rows as (xbits list, zbits list, sign) for sv.projector_from_rows"""
        return [([(x >> q) & 1 for q in range(self.n)], [(z >> q) & 1 for q in range(self.n)], s) for x, z, s in self.rows]


def _rank(vecs):
    basis = []
    for v in vecs:
        for bv in basis:
            v = min(v, v ^ bv)
        if v:
            basis.append(v)
    return len(basis)


def from_bit_rows(n, xrows, zrows, signs):
    rows = []
    for xr, zr, s in zip(xrows, zrows, signs):
        x = 0
        z = 0
        for q in range(n):
            if int(xr[q]) & 1:
                x |= 1 << q
            if int(zr[q]) & 1:
                z |= 1 << q
        rows.append((x, z, int(s) & 1))
    return Stab(n, rows)


def graph_stab(n, edges):
    nb = [0] * n
    for a, b in edges:
        nb[a] |= 1 << b
        nb[b] |= 1 << a
    return Stab(n, [(1 << q, nb[q], 0) for q in range(n)])

"""
check.py selftest [--fast] [ids...]

1. reference validation: state-vector vs bit-row stabilizer reference on random programs (harness error if they disagree)
2. determinism: for every property engine, the event-log digests of the first N run seeds must be identical
   - between two fresh interpreters,
   - between 1 worker and 16 workers,
   and are additionally compared under another PYTHONHASHSEED (reported; a difference there is attributed to
   hash-order dependence in graphiq or in the harness and is printed as a warning).
"""
import json
import os
import random
import subprocess
import sys
import time

import numpy as np

from sim import core
from sim.ref import chp, sv

ALL = ["C01", "C02", "C04", "C07", "C10", "C12", "C13", "C16", "C19"]


def ref_validation(n_prog):
    bad = 0
    for seed in range(n_prog):
        rng = random.Random(seed)
        n = rng.randint(1, 5)
        a = sv.SV(n)
        b = chp.Stab(n)
        for step in range(40):
            k = rng.choice(["H", "P", "Pd", "X", "Y", "Z", "CNOT", "CZ", "M", "R", "swap", "ins", "rem"])
            n = a.n
            q = rng.randrange(n)
            if k in ("H", "P", "Pd", "X", "Y", "Z"):
                a.u1(q, k)
                b.gate(k, q)
            elif k in ("CNOT", "CZ") and n > 1:
                c, t = rng.sample(range(n), 2)
                (a.cnot if k == "CNOT" else a.cz)(c, t)
                b.gate(k, c, t)
            elif k == "M":
                w = rng.randint(0, 1)
                o1, r1, _ = a.measure(q, w)
                o2, r2 = b.measure(q, w)
                if (o1, r1) != (o2, r2):
                    return f"measurement disagreement seed={seed} step={step}"
            elif k == "R":
                w = rng.randint(0, 1)
                o1, r1, _ = a.reset(q, w)
                o2, r2 = b.reset(q, w)
                if (o1, r1) != (o2, r2):
                    return f"reset disagreement seed={seed} step={step}"
            elif k == "swap" and n > 1:
                c, t = rng.sample(range(n), 2)
                a.swap(c, t)
                b.swap(c, t)
            elif k == "ins" and n < 6:
                pos = rng.randint(0, n)
                a.insert(pos)
                b.insert(pos)
            elif k == "rem" and n > 1:
                if a.unentangled(q) != (not b.entangled(q)):
                    return f"entanglement test disagreement seed={seed} step={step}"
                w = rng.randint(0, 1)
                o1, r1, _ = a.measure(q, w)
                o2, r2 = b.measure(q, w)
                a.remove_projected(q, o1)
                b.remove_measured(q)
            else:
                continue
            if not b.is_valid():
                return f"stabilizer reference invalid seed={seed} step={step}"
            if not np.allclose(sv.projector_from_rows(b.n, b.bits()), a.rho(), atol=1e-9):
                return f"state disagreement seed={seed} step={step} after {k}"
    return None


def digests(pid, n, workers, hashseed=None):
    env = dict(os.environ)
    env["VERIF_WORKERS"] = str(workers)
    env.pop("PYTHONHASHSEED", None)
    if hashseed is not None:
        env["VERIF_HASHSEED"] = str(hashseed)
    else:
        env.pop("VERIF_HASHSEED", None)
    p = subprocess.run([sys.executable, os.path.join(core.VERIF_DIR, "check.py"), pid, "--digests", str(n)], capture_output=True, text=True, env=env, timeout=3000)
    for line in p.stdout.splitlines():
        if line.startswith("DIGESTS "):
            return json.loads(line[8:])
    raise core.HarnessError(f"no digests from {pid}: rc={p.returncode} {p.stdout[-300:]} {p.stderr[-300:]}")


def main(argv):
    fast = "--fast" in argv
    ids = [a.upper() for a in argv if not a.startswith("--")] or ALL
    t0 = time.time()
    msg = ref_validation(150 if fast else 1500)
    if msg:
        print("HARNESS-ERROR reference models disagree:", msg)
        return 2
    print(f"reference validation ok ({time.time() - t0:.1f}s)")
    n = 40 if fast else 200
    rc = 0
    for pid in ids:
        if not os.path.exists(os.path.join(core.VERIF_DIR, "sim", "props", pid.lower() + ".py")):
            continue
        nn = n if pid not in ("C19", "C13", "C10") else max(10, n // 4)
        t1 = time.time()
        a = digests(pid, nn, 16)
        b = digests(pid, nn, 16)
        c = digests(pid, nn, 1) if not fast else a
        d = digests(pid, nn, 16, hashseed=1)
        ok = a == b == c
        print(f"{pid}: {nn} seeds, twice/16 workers equal={a == b}, 1 vs 16 workers equal={a == c}, PYTHONHASHSEED=1 equal={a == d} ({time.time() - t1:.0f}s)")
        if not ok:
            diff = [x for x, y in zip(a, b) if x != y][:3] + [x for x, y in zip(a, c) if x != y][:3]
            print("HARNESS-ERROR nondeterministic engine", pid, diff)
            rc = 2
        if a != d:
            print(f"  WARNING {pid}: digests differ under another hash seed: {[(x[0]) for x, y in zip(a, d) if x != y][:8]}")
    return rc

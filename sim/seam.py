"""
The RNG seam: every random draw graphiq makes goes through numpy.random.{randint,choice,shuffle,seed,default_rng,...}
or random.{seed,choices,uniform,choice,...}.  `OwnedRNG` replaces those attributes for the duration of a `with` block.

owned mode  : values come from simulator-owned generators - a numpy RandomState, numpy Generators and a
              random.Random, all seeded from the run's stream, so that shapes, dtypes and corner-case semantics are
              numpy's own - except that (a) the two measurement-outcome sites are answered by the outcome scheduler
              (OutcomeScript) and (b) other sites can be 'buggified' with extreme or duplicate-but-legal answers.
              Every draw is logged as (site, kind, value).
observe mode: draws pass through to the real global generators and are only logged (used where the real seeding
              mechanism is the thing under test).
Logging never draws from a PRNG.
"""
import random as _pyrandom
import sys

import numpy as np
import numpy.random as npr

MEAS_SITES = ("clifford.py:z_measurement_gate", "state.py:apply_measurement")


def _site():
    """first frame below the seam that lies in graphiq (file:function); 'ext' for everybody else"""
    f = sys._getframe(2)
    while f is not None:
        fn = f.f_code.co_filename
        if "/graphiq/" in fn:
            return fn.rsplit("/", 1)[1] + ":" + f.f_code.co_name
        f = f.f_back
    return "ext"


def _summ(v):
    if isinstance(v, np.ndarray):
        return v.tolist() if v.size <= 64 and v.dtype != object else f"array{v.shape}"
    if isinstance(v, (np.integer,)):
        return int(v)
    if isinstance(v, (np.floating,)):
        return float(v)
    if isinstance(v, (int, float, str, type(None))):
        return v
    return type(v).__name__


class OutcomeScript:
    """answers measurement-outcome draws: scripted bits first, then `fallback` (0, 1 or a random.Random)"""

    def __init__(self, bits=(), fallback=0):
        self.bits = list(bits)
        self.fallback = fallback
        self.taken = []  # (site, value, p or None) for every consultation
        self.used = []  # values handed out for genuinely random measurements (scripted prefix + fallback answers)
        self.k = 0

    def next(self, site, p=None):
        if p is not None and min(p[0], p[1]) < 1e-9:
            # a deterministic measurement in a backend that consults the RNG anyway: only the legal value may be
            # returned and no scripted bit is consumed (script position k counts genuinely random measurements)
            v = 0 if p[0] >= p[1] else 1
            self.taken.append((site, v, [float(p[0]), float(p[1])]))
            return v
        if self.k < len(self.bits):
            v = int(self.bits[self.k])
        elif isinstance(self.fallback, _pyrandom.Random):
            v = self.fallback.randrange(2)
        else:
            v = int(self.fallback)
        self.k += 1
        self.used.append(v)
        self.taken.append((site, v, None if p is None else [float(p[0]), float(p[1])]))
        return v


class _GenProxy:
    """stands in for the numpy Generator returned by default_rng: delegates to a real Generator the simulator seeded;
    fault rng_duplicate replaces answers by repeats of earlier answers / the identity permutation (all legal values)"""

    def __init__(self, owner, seed):
        self.o = owner
        if seed is None:
            seed = owner.lib.randrange(2**63)
        self.g = owner.real["default_rng"](seed)
        self.perm_hist = []

    def _bug(self, kind):
        return self.o.buggify and self.o.bug.random() < self.o.bug_rate.get(kind, 0)

    def permutation(self, x, axis=0):
        site = _site()
        out = self.g.permutation(x, axis=axis)
        if isinstance(x, (int, np.integer)) and self._bug("rng_duplicate"):
            same = [h for h in self.perm_hist if len(h) == int(x)]
            if same and self.o.bug.random() < 0.6:
                out = np.array(self.o.bug.choice(same))
            else:
                out = np.arange(int(x))
            self.o.ctx_fault("rng_duplicate")
        if isinstance(x, (int, np.integer)):
            self.perm_hist.append(tuple(int(v) for v in out))
        self.o.log(site, "gen.permutation", _summ(out))
        return out

    def choice(self, a, size=None, replace=True, p=None, axis=0, shuffle=True):
        site = _site()
        out = self.g.choice(a, size=size, replace=replace, p=p, axis=axis, shuffle=shuffle)
        if replace and isinstance(out, np.ndarray) and out.ndim >= 1 and len(out) >= 2 and self._bug("rng_duplicate"):
            # sampling with replacement may legally repeat: make some rows copies of the first one
            out = out.copy()
            for j in range(1, len(out)):
                if self.o.bug.random() < 0.5:
                    out[j] = out[0]
            self.o.ctx_fault("rng_duplicate")
        self.o.log(site, "gen.choice", _summ(out))
        return out

    def integers(self, *a, **k):
        site = _site()
        out = self.g.integers(*a, **k)
        self.o.log(site, "gen.integers", _summ(out))
        return out

    def random(self, *a, **k):
        site = _site()
        out = self.g.random(*a, **k)
        self.o.log(site, "gen.random", _summ(out))
        return out

    def shuffle(self, x, axis=0):
        site = _site()
        self.g.shuffle(x, axis=axis)
        self.o.log(site, "gen.shuffle", len(x))

    def __getattr__(self, name):  # anything else: numpy's own behaviour
        return getattr(self.g, name)


class OwnedRNG:
    PATCH_NP = ("randint", "choice", "shuffle", "seed", "default_rng", "rand", "random", "permutation", "random_sample", "uniform", "normal")
    PATCH_PY = ("seed", "choices", "uniform", "choice", "random", "randint", "sample", "shuffle", "randrange")

    def __init__(self, run_seed_rng, outcomes=None, ctx=None, buggify=False, bug_rate=None, bug_rng=None, observe=False):
        """run_seed_rng: random.Random seeding the owned generators; outcomes: OutcomeScript or None"""
        self.lib = run_seed_rng
        self.outcomes = outcomes
        self.ctx = ctx
        self.buggify = buggify
        self.bug_rate = bug_rate or {}
        self.bug = bug_rng or _pyrandom.Random(0)
        self.observe = observe
        self.draws = []
        self._saved = None
        self.real = {}

    def ctx_fault(self, kind):
        if self.ctx is not None:
            self.ctx.fault(kind)

    def log(self, site, kind, value):
        self.draws.append((site, kind, value))

    def _np(self, site):
        return self.np_ext if site == "ext" else self.np_lib

    def _py(self, site):
        return self.py_ext if site == "ext" else self.py_lib

    # ----- numpy.random replacements (owned mode)
    def _randint(self, low, high=None, size=None, dtype=int):
        site = _site()
        if site in MEAS_SITES and self.outcomes is not None and size is None and (low, high) in ((0, 2), (2, None)):
            v = self.outcomes.next(site)
            self.log(site, "outcome", v)
            return v
        if self.buggify and site != "ext" and size is None and self.bug.random() < self.bug_rate.get("rng_extreme", 0):
            lo, hi = (0, int(low)) if high is None else (int(low), int(high))
            if hi > lo:
                self.ctx_fault("rng_extreme")
                v = lo if self.bug.random() < 0.5 else hi - 1
                self.log(site, "randint!", [lo, hi, v])
                return v
        v = self._np(site).randint(low, high, size, dtype)
        self.log(site, "randint", _summ(v))
        return v

    def _choice(self, a, size=None, replace=True, p=None):
        site = _site()
        if site in MEAS_SITES and self.outcomes is not None and size is None and p is not None and len(p) == 2:
            items = list(range(a)) if isinstance(a, (int, np.integer)) else list(a)
            v = self.outcomes.next(site, p=np.asarray(p, dtype=float))
            self.log(site, "outcome", [v, [round(float(x), 12) for x in p]])
            return items[v]
        if self.buggify and site != "ext" and size is None and self.bug.random() < self.bug_rate.get("rng_extreme", 0):
            items = list(range(a)) if isinstance(a, (int, np.integer)) else list(a)
            pp = None if p is None else np.asarray(p, dtype=float)
            legal = [i for i in range(len(items)) if pp is None or pp[i] > 0]
            if legal and (pp is None or abs(pp.sum() - 1) < 1e-8):
                self.ctx_fault("rng_extreme")
                if pp is None:
                    i = legal[0] if self.bug.random() < 0.5 else legal[-1]
                else:
                    i = min(legal, key=lambda t: (pp[t], t))  # least likely legal index
                self.log(site, "choice!", i)
                return items[i] if not isinstance(a, (int, np.integer)) else np.int64(i)
        v = self._np(site).choice(a, size, replace, p)
        self.log(site, "choice", _summ(v))
        return v

    def _wrap_np(self, name):
        def f(*a, **k):
            site = _site()
            v = getattr(self._np(site), name)(*a, **k)
            self.log(site, name, _summ(v) if name != "shuffle" else None)
            return v

        return f

    def _np_seed(self, seed=None):
        site = _site()
        self.log(site, "np.seed", _summ(seed))
        self._np(site).seed(seed)

    def _default_rng(self, seed=None):
        site = _site()
        self.log(site, "default_rng", _summ(seed))
        if site == "ext":
            return self.real["default_rng"](seed if seed is not None else self.py_ext.randrange(2**63))
        return _GenProxy(self, seed)

    def _wrap_py(self, name):
        def f(*a, **k):
            site = _site()
            v = getattr(self._py(site), name)(*a, **k)
            if name == "choices":
                self.log(site, "py.choices", len(v))
            elif name in ("seed", "shuffle"):
                self.log(site, "py." + name, _summ(a[0]) if name == "seed" and a else None)
            elif name in ("choice", "sample"):
                self.log(site, "py." + name, None)
            else:
                self.log(site, "py." + name, _summ(v))
            return v

        return f

    # ----- observe mode wrapper
    def _wrap_observe(self, name, fn):
        def w(*a, **k):
            site = _site()
            v = fn(*a, **k)
            if name in ("np.seed", "py.seed"):
                sv = _summ(a[0]) if a else None
            elif name in ("py.choices",):
                sv = len(v)
            elif name in ("py.choice", "np.shuffle"):
                sv = None
            else:
                sv = _summ(v)
            self.log(site, name, sv)
            return v

        return w

    def __enter__(self):
        self._saved = {("np", n): getattr(npr, n) for n in self.PATCH_NP}
        self._saved.update({("py", n): getattr(_pyrandom, n) for n in self.PATCH_PY})
        self.real = {"default_rng": self._saved[("np", "default_rng")]}
        if self.observe:
            for n in ("randint", "choice", "shuffle", "seed", "rand", "random", "permutation"):
                setattr(npr, n, self._wrap_observe("np." + n, self._saved[("np", n)]))
            for n in ("seed", "choices", "uniform", "choice", "random", "randint"):
                setattr(_pyrandom, n, self._wrap_observe("py." + n, self._saved[("py", n)]))
            return self
        self.np_lib = npr.RandomState(self.lib.randrange(2**32))
        self.np_ext = npr.RandomState(20240607)
        self.py_lib = _pyrandom.Random(self.lib.randrange(2**63))
        self.py_ext = _pyrandom.Random(20240607)
        npr.randint = self._randint
        npr.choice = self._choice
        npr.seed = self._np_seed
        npr.default_rng = self._default_rng
        for n in ("shuffle", "rand", "random", "permutation", "random_sample", "uniform", "normal"):
            setattr(npr, n, self._wrap_np(n))
        for n in self.PATCH_PY:
            setattr(_pyrandom, n, self._wrap_py(n))
        return self

    def __exit__(self, *a):
        for (k, n), v in self._saved.items():
            setattr(npr if k == "np" else _pyrandom, n, v)
        return False

"""
The RNG seam: every random draw graphiq makes goes through numpy.random.{randint,choice,shuffle,seed,default_rng}
or random.{seed,choices,uniform,choice}.  `OwnedRNG` replaces those attributes for the duration of a `with` block.

owned mode  : values come from simulator streams (random.Random derived from the run seed); the measurement
              outcome sites can be scripted (outcome scheduler) and other sites can be 'buggified' (extreme or
              duplicate-but-legal answers).  Every draw is logged as (site, kind, value).
observe mode: draws pass through to the real generators and are only logged (used where the real seeding
              mechanism is the thing under test).
Logging never draws from a PRNG.
"""
import random as _pyrandom
import sys

import numpy as np
import numpy.random as npr

MEAS_SITES = ("clifford.py:z_measurement_gate", "state.py:apply_measurement")


def _site():
    """first frame below the seam that lies in graphiq (file:function); 'ext' for everybody else"""
    f = sys._getframe(2)
    while f is not None:
        fn = f.f_code.co_filename
        if "/graphiq/" in fn:
            return fn.rsplit("/", 1)[1] + ":" + f.f_code.co_name
        f = f.f_back
    return "ext"


class OutcomeScript:
    """answers measurement-outcome draws: scripted bits first, then `fallback` (0, 1 or a random.Random)"""

    def __init__(self, bits=(), fallback=0):
        self.bits = list(bits)
        self.fallback = fallback
        self.taken = []  # (site, value, p or None) for every consultation
        self.used = []  # values handed out for genuinely random measurements (scripted prefix + fallback answers)
        self.k = 0

    def next(self, site, p=None):
        if p is not None and min(p[0], p[1]) < 1e-9:
            # a deterministic measurement in a backend that consults the RNG anyway: only the legal value may be
            # returned and no scripted bit is consumed (script position k counts genuinely random measurements)
            v = 0 if p[0] >= p[1] else 1
            self.taken.append((site, v, [float(p[0]), float(p[1])]))
            return v
        if self.k < len(self.bits):
            v = int(self.bits[self.k])
        elif isinstance(self.fallback, _pyrandom.Random):
            v = self.fallback.randrange(2)
        else:
            v = int(self.fallback)
        self.k += 1
        self.used.append(v)
        self.taken.append((site, v, None if p is None else [float(p[0]), float(p[1])]))
        return v


class _GenProxy:
    """stands in for numpy Generator returned by default_rng; supports what graphiq uses"""

    def __init__(self, owner, seed):
        self.o = owner
        self.seed = seed
        # a seeded generator must be a pure function of its seed; a seedless one takes the simulator's stream
        self.r = _pyrandom.Random(f"gen/{seed}") if seed is not None else owner.lib
        self.hist = []

    def _bug(self, kind):
        return self.o.buggify and self.o.bug.random() < self.o.bug_rate.get(kind, 0)

    def permutation(self, n):
        site = _site()
        if isinstance(n, (int, np.integer)):
            items = list(range(int(n)))
        else:
            items = list(n)
        if self._bug("rng_duplicate") :
            if self.hist and self.o.bug.random() < 0.6:
                out = list(self.o.bug.choice(self.hist))
                if len(out) != len(items):
                    out = list(items)
            else:
                out = list(items)  # identity
            self.o.ctx_fault("rng_duplicate")
        else:
            out = list(items)
            self.r.shuffle(out)
        self.hist.append(tuple(out))
        self.o.log(site, "gen.permutation", out)
        return np.array(out)

    def choice(self, a, size=None, replace=True, p=None, **kw):
        site = _site()
        if isinstance(a, (int, np.integer)):
            items = list(range(int(a)))
        else:
            items = list(a)
        n = len(items)
        single = size is None
        k = 1 if single else int(size if not isinstance(size, tuple) else size[0])
        idxs = []
        if p is not None:
            cum = np.cumsum(np.asarray(p, dtype=float))
        for j in range(k):
            if self._bug("rng_duplicate") and idxs and replace:
                i = idxs[-1]
                self.o.ctx_fault("rng_duplicate")
            elif p is not None:
                u = self.r.random() * cum[-1]
                i = int(np.searchsorted(cum, u, side="right"))
                i = min(i, n - 1)
                while p[i] <= 0:
                    i = (i + 1) % n
            else:
                i = self.r.randrange(n)
            if not replace:
                tries = 0
                while i in idxs:
                    i = (i + 1) % n
                    tries += 1
            idxs.append(i)
        self.o.log(site, "gen.choice", idxs)
        if single:
            return items[idxs[0]]
        if isinstance(a, (int, np.integer)):
            return np.array([items[i] for i in idxs])
        try:
            return np.array([items[i] for i in idxs])
        except Exception:
            out = np.empty(len(idxs), dtype=object)
            for j, i in enumerate(idxs):
                out[j] = items[i]
            return out

    def integers(self, low, high=None, size=None, **kw):
        site = _site()
        if high is None:
            low, high = 0, low
        if size is None:
            v = self.r.randrange(int(low), int(high))
            self.o.log(site, "gen.integers", v)
            return v
        vals = [self.r.randrange(int(low), int(high)) for _ in range(int(size))]
        self.o.log(site, "gen.integers", vals)
        return np.array(vals)

    def random(self, size=None):
        site = _site()
        if size is None:
            v = self.r.random()
            self.o.log(site, "gen.random", v)
            return v
        vals = [self.r.random() for _ in range(int(size))]
        self.o.log(site, "gen.random", len(vals))
        return np.array(vals)

    def shuffle(self, x):
        site = _site()
        idx = list(range(len(x)))
        self.r.shuffle(idx)
        vals = [x[i] for i in idx]
        for j, v in enumerate(vals):
            x[j] = v
        self.o.log(site, "gen.shuffle", idx)


class OwnedRNG:
    PATCH_NP = ("randint", "choice", "shuffle", "seed", "default_rng", "rand", "random", "permutation")
    PATCH_PY = ("seed", "choices", "uniform", "choice", "random", "randint", "sample", "shuffle")

    def __init__(self, run_seed_rng, outcomes=None, ctx=None, buggify=False, bug_rate=None, bug_rng=None, observe=False):
        """run_seed_rng: random.Random for library draws; outcomes: OutcomeScript or None (then library stream)"""
        self.lib = run_seed_rng
        self.ext = _pyrandom.Random(12345)
        self.outcomes = outcomes
        self.ctx = ctx
        self.buggify = buggify
        self.bug_rate = bug_rate or {}
        self.bug = bug_rng or _pyrandom.Random(0)
        self.observe = observe
        self.draws = []
        self._saved = None

    def ctx_fault(self, kind):
        if self.ctx is not None:
            self.ctx.fault(kind)

    def log(self, site, kind, value):
        self.draws.append((site, kind, value))

    def _stream(self, site):
        return self.ext if site == "ext" else self.lib

    # ----- numpy.random replacements (owned mode)
    def _randint(self, low, high=None, size=None, dtype=int):
        site = _site()
        if high is None:
            low, high = 0, low
        low, high = int(low), int(high)
        if site in MEAS_SITES and self.outcomes is not None and size is None and (low, high) == (0, 2):
            v = self.outcomes.next(site)
            self.log(site, "outcome", v)
            return v
        r = self._stream(site)

        def one():
            if self.buggify and site != "ext" and self.bug.random() < self.bug_rate.get("rng_extreme", 0):
                self.ctx_fault("rng_extreme")
                return low if self.bug.random() < 0.5 else high - 1
            return r.randrange(low, high)

        if size is None:
            v = one()
            self.log(site, "randint", [low, high, v])
            return v
        n = int(size) if not isinstance(size, tuple) else int(np.prod(size))
        vals = [one() for _ in range(n)]
        self.log(site, "randint", [low, high, vals])
        arr = np.array(vals)
        return arr.reshape(size) if isinstance(size, tuple) else arr

    def _choice(self, a, size=None, replace=True, p=None):
        site = _site()
        if isinstance(a, (int, np.integer)):
            items = list(range(int(a)))
        else:
            items = list(a)
        n = len(items)
        if site in MEAS_SITES and self.outcomes is not None and size is None and n == 2 and p is not None:
            v = self.outcomes.next(site, p=np.asarray(p, dtype=float))
            self.log(site, "outcome", [v, [round(float(x), 12) for x in p]])
            return items[v]
        r = self._stream(site)
        k = 1 if size is None else (int(size) if not isinstance(size, tuple) else int(np.prod(size)))
        pp = None if p is None else np.asarray(p, dtype=float)
        if pp is not None:
            if abs(pp.sum() - 1) > 1e-8 or (pp < 0).any():
                raise ValueError("probabilities do not sum to 1")
            cum = np.cumsum(pp)
        idxs = []
        for j in range(k):
            if self.buggify and site != "ext" and self.bug.random() < self.bug_rate.get("rng_extreme", 0):
                self.ctx_fault("rng_extreme")
                legal = [i for i in range(n) if pp is None or pp[i] > 0]
                if pp is None:
                    i = legal[0] if self.bug.random() < 0.5 else legal[-1]
                else:
                    i = min(legal, key=lambda t: (pp[t], t))  # least likely legal index
            elif pp is not None:
                u = r.random() * cum[-1]
                i = min(int(np.searchsorted(cum, u, side="right")), n - 1)
                while pp[i] <= 0:
                    i = (i + 1) % n
            else:
                i = r.randrange(n)
            if not replace:
                while i in idxs:
                    i = (i + 1) % n
            idxs.append(i)
        self.log(site, "choice", idxs)
        if size is None:
            return items[idxs[0]]
        return np.array([items[i] for i in idxs])

    def _shuffle(self, x):
        site = _site()
        r = self._stream(site)
        idx = list(range(len(x)))
        r.shuffle(idx)
        vals = [x[i] for i in idx]
        for j, v in enumerate(vals):
            x[j] = v
        self.log(site, "shuffle", idx)

    def _permutation(self, x):
        site = _site()
        r = self._stream(site)
        items = list(range(int(x))) if isinstance(x, (int, np.integer)) else list(x)
        r.shuffle(items)
        self.log(site, "permutation", len(items))
        return np.array(items)

    def _np_seed(self, seed=None):
        site = _site()
        self.log(site, "np.seed", seed)
        if site != "ext":
            self.lib.seed(f"np/{seed}")

    def _default_rng(self, seed=None):
        site = _site()
        self.log(site, "default_rng", None if seed is None else int(seed) if isinstance(seed, (int, np.integer)) else str(seed))
        return _GenProxy(self, seed)

    def _rand(self, *shape):
        site = _site()
        r = self._stream(site)
        if not shape:
            v = r.random()
            self.log(site, "rand", v)
            return v
        n = int(np.prod(shape))
        self.log(site, "rand", n)
        return np.array([r.random() for _ in range(n)]).reshape(shape)

    def _random(self, size=None):
        if size is None:
            return self._rand()
        return self._rand(*((size,) if isinstance(size, int) else tuple(size)))

    # ----- python random replacements
    def _py_seed(self, a=None, version=2):
        site = _site()
        self.log(site, "py.seed", a if isinstance(a, (int, type(None))) else str(a))
        if site != "ext":
            self.pylib.seed(f"py/{a}")

    def _py_choices(self, population, weights=None, *, cum_weights=None, k=1):
        site = _site()
        r = self.pylib if site != "ext" else self.ext
        n = len(population)
        idx = [r.randrange(n) for _ in range(k)] if weights is None and cum_weights is None else None
        if idx is None:
            out = r.choices(range(n), weights=weights, cum_weights=cum_weights, k=k)
            idx = list(out)
        self.log(site, "py.choices", idx)
        return [population[i] for i in idx]

    def _py_uniform(self, a, b):
        site = _site()
        r = self.pylib if site != "ext" else self.ext
        v = r.uniform(a, b)
        self.log(site, "py.uniform", v)
        return v

    def _py_choice(self, seq):
        site = _site()
        r = self.pylib if site != "ext" else self.ext
        i = r.randrange(len(seq))
        self.log(site, "py.choice", i)
        return seq[i]

    def _py_random(self):
        site = _site()
        r = self.pylib if site != "ext" else self.ext
        return r.random()

    def _py_randint(self, a, b):
        site = _site()
        r = self.pylib if site != "ext" else self.ext
        v = r.randint(a, b)
        self.log(site, "py.randint", v)
        return v

    def _py_sample(self, population, k, **kw):
        site = _site()
        r = self.pylib if site != "ext" else self.ext
        idx = r.sample(range(len(population)), k)
        self.log(site, "py.sample", idx)
        pop = list(population)
        return [pop[i] for i in idx]

    def _py_shuffle(self, x):
        site = _site()
        r = self.pylib if site != "ext" else self.ext
        idx = list(range(len(x)))
        r.shuffle(idx)
        vals = [x[i] for i in idx]
        for j, v in enumerate(vals):
            x[j] = v
        self.log(site, "py.shuffle", idx)

    # ----- observe mode wrappers
    def _wrap_observe(self, name, fn):
        def w(*a, **k):
            site = _site()
            v = fn(*a, **k)
            if site in MEAS_SITES and self.outcomes is not None and name in ("np.randint", "np.choice"):
                pass
            try:
                sv = v.tolist() if isinstance(v, np.ndarray) else (int(v) if isinstance(v, (int, np.integer)) else (float(v) if isinstance(v, (float, np.floating)) else None))
            except Exception:
                sv = None
            if name == "py.choices":
                sv = len(v)
            if name in ("np.seed", "py.seed"):
                sv = a[0] if a else None
            self.log(site, name, sv)
            return v

        return w

    def __enter__(self):
        self.pylib = _pyrandom.Random(self.lib.random())
        self._saved = {("np", n): getattr(npr, n) for n in self.PATCH_NP}
        self._saved.update({("py", n): getattr(_pyrandom, n) for n in self.PATCH_PY})
        if self.observe:
            for n in ("randint", "choice", "shuffle", "seed"):
                setattr(npr, n, self._wrap_observe("np." + n, self._saved[("np", n)]))
            for n in ("seed", "choices", "uniform", "choice"):
                setattr(_pyrandom, n, self._wrap_observe("py." + n, self._saved[("py", n)]))
            if self.outcomes is not None:
                # outcomes still scripted in observe mode (legal: they are the values a real generator could return)
                real_randint, real_choice = self._saved[("np", "randint")], self._saved[("np", "choice")]

                def randint(low, high=None, size=None, dtype=int):
                    site = _site()
                    if site in MEAS_SITES and size is None:
                        v = self.outcomes.next(site)
                        self.log(site, "outcome", v)
                        return v
                    v = real_randint(low, high, size)
                    self.log(site, "np.randint", v.tolist() if isinstance(v, np.ndarray) else int(v))
                    return v

                def choice(a, size=None, replace=True, p=None):
                    site = _site()
                    if site in MEAS_SITES and size is None and p is not None:
                        v = self.outcomes.next(site, p=np.asarray(p, dtype=float))
                        self.log(site, "outcome", v)
                        return list(a)[v]
                    v = real_choice(a, size, replace, p)
                    self.log(site, "np.choice", v.tolist() if isinstance(v, np.ndarray) else (int(v) if isinstance(v, (int, np.integer)) else str(v)))
                    return v

                npr.randint = randint
                npr.choice = choice
        else:
            npr.randint = self._randint
            npr.choice = self._choice
            npr.shuffle = self._shuffle
            npr.seed = self._np_seed
            npr.default_rng = self._default_rng
            npr.rand = self._rand
            npr.random = self._random
            npr.permutation = self._permutation
            _pyrandom.seed = self._py_seed
            _pyrandom.choices = self._py_choices
            _pyrandom.uniform = self._py_uniform
            _pyrandom.choice = self._py_choice
            _pyrandom.random = self._py_random
            _pyrandom.randint = self._py_randint
            _pyrandom.sample = self._py_sample
            _pyrandom.shuffle = self._py_shuffle
        return self

    def __exit__(self, *a):
        for (k, n), v in self._saved.items():
            setattr(npr if k == "np" else _pyrandom, n, v)
        return False

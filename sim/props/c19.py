"""
C19 - random-search solvers are reproducible and report honest, ordered results.

System under simulation: EvolutionarySolver / HybridEvolutionarySolver (real code, real metric and compiler).  The same
(configuration, seed) is executed several times: twice in this interpreter with different *pollution* of both global
RNGs before solver.seed() (fault rng_pollution), and once each in interpreters started with other PYTHONHASHSEED values
(fault other_hashseed_interpreter: a process restart changes set iteration order).  RNG seam in observe mode (the real
seeding mechanism is the thing under test); update_logs is overridden to snapshot the hall of fame every generation.
"""
import hashlib
import json
import os
import random
import subprocess
import sys
import warnings

import numpy as np

from sim import core, gq, graphs
from sim.core import Ctx, stream
from sim.outcomes import sweep
from sim.seam import OutcomeScript, OwnedRNG

ID = "C19"
RUNS = {"quick": 480, "thorough": 12000}
BUDGET = {"quick": 80, "thorough": 1500}
CHUNK = {"quick": 5, "thorough": 10}
RUN_TIMEOUT_S = 900
ISOLATE = False  # runs keep long-lived helper interpreters; every execution starts from case-derived RNG pollution instead
RULE = (
    "case = solver kind (evolutionary / hybrid) x connected target graph n = 2..5 x setting (n_pop 2-8, n_stop 2-8, "
    "n_hof 1-5, selection on/off, tournament_k 0-3, adaptive probabilities on/off) x compiler (stabilizer / density "
    "matrix) x measurement setting x seed; each case is executed twice in-process with different RNG pollution before "
    "solver.seed() and once in each of two other interpreters with different PYTHONHASHSEED. Distinct = distinct "
    "event-log digest; non-trivial = >=2 generations changed the hall of fame and >=1 two-qubit move or selection step was drawn."
)
PROBES = ["hof_unfilled_slots", "hof_tie_replaced_by_smaller", "selection_drawn", "two_qubit_move_drawn",
          "probabilistic_setting", "hybrid_solver", "n_hof_gt_n_pop", "dm_compiler", "starting_circuit_given", "metric_log_steps_gt_1", "compiled_signed_target", "noise_model_given"]
REAL = ["graphiq.solvers.evolutionary_solver.EvolutionarySolver.solve", "graphiq.solvers.hybrid_solvers.HybridEvolutionarySolver",
        "graphiq.solvers.solver_base (seed, update_hof, tournament_selection)", "graphiq.metrics.Infidelity", "both compilers",
        "numpy.random / random global generators (observed, not replaced)"]
STUB = []
ASSUMPTIONS = [
    "H2 re-evaluates with graphiq's own compile + partial_trace + metric (the statement is about the stored score vs the metric re-evaluated)",
    "scores are compared with numpy.isclose tolerances (the tolerance update_hof itself uses)",
]
OTHER_HASHSEEDS = [1, 4242, 77]


# ------------------------------------------------------------------------------------------------ generation
def gen_case(run_seed, tier):
    sz = stream(run_seed, "sizes")
    kind = sz.choice(["evo", "hyb"])
    g, fam = graphs.random_graph(sz, 2, 5 if tier == "thorough" else 4, connected=True, allow_isolated=False)
    n_pop = sz.randint(2, 8 if tier == "thorough" else 6)
    n_hof = sz.randint(1, 5)
    if sz.random() < 0.85:
        n_hof = min(n_hof, n_pop)  # most runs avoid the n_hof > n_pop corner
    case = {
        "kind": kind,
        "n": g[0],
        "edges": [list(e) for e in g[1]],
        "ne": sz.randint(1, 2),
        "n_pop": n_pop,
        "n_stop": sz.randint(2, 8 if tier == "thorough" else 6),
        "n_hof": n_hof,
        "selection": sz.random() < 0.5,
        "tournament_k": sz.randint(0, 3),
        "adapt": sz.random() < 0.5,
        # the compiler is not part of C19's quantifier; the density-matrix compiler is only mixed in for the plain
        # evolutionary solver (the hybrid solver converts a dm target in place, which is C13's subject)
        "backend": sz.choice(["stab", "stab", "stab", "dm"]) if kind == "evo" else "stab",
        "det": sz.choice([0, 1, 1, 2]),
        # "all seeds": boundary values are drawn often (0 is falsy, 2**32-1 is numpy's largest legal seed)
        "seed": sz.choice([0, 0, 1, 2**32 - 1] + [sz.randrange(1000) for _ in range(16)]),
        "hashseed": sz.choice(OTHER_HASHSEEDS[1:]),
        "pollution": [sz.randrange(10**6) for _ in range(4)],
        # the plain evolutionary solver may be handed a starting circuit (its population then starts from copies of it)
        "given_circuit": kind == "evo" and sz.random() < 0.3,
        # the metric's documented log_steps keyword (how often it records its value) must not change what it returns
        "log_steps": sz.choice([1, 1, 1, 3, 4]),
        # a target that is not a graph state: a stabilizer state compiled from a short seeded circuit (signed generators
        # in arbitrary order); only for the plain evolutionary solver
        "compiled_target": kind == "evo" and sz.random() < 0.4,
        # a depolarizing noise model on emitter Hadamards: scores are then computed with noise switched on
        "noise": kind == "hyb" and sz.random() < 0.3,
    }
    if case["noise"]:
        # a depolarizing model turns every compile into a growing mixture: keep these runs small and the setting forced
        case["det"] = 0 if case["det"] == 0 else 1
        case["n_pop"] = min(case["n_pop"], 4)
        case["n_stop"] = min(case["n_stop"], 4)
        if case["n"] > 3:
            case["noise"] = False
    return case


def simplify(case):
    for key, lo in (("n_stop", 1), ("n_pop", 1), ("n_hof", 1)):
        if case[key] > lo:
            c = dict(case)
            c[key] = case[key] - 1
            yield c
    for key in ("selection", "adapt"):
        if case[key]:
            c = dict(case)
            c[key] = False
            yield c
    if case["backend"] != "stab":
        c = dict(case)
        c["backend"] = "stab"
        yield c
    if case["det"] != 1:
        c = dict(case)
        c["det"] = 1
        yield c
    if case["kind"] != "evo":
        c = dict(case)
        c["kind"] = "evo"
        yield c
    if case.get("given_circuit"):
        c = dict(case)
        c["given_circuit"] = False
        yield c
    if case.get("log_steps", 1) > 1:
        c = dict(case)
        c["log_steps"] = 1
        yield c
    if case.get("compiled_target"):
        c = dict(case)
        c["compiled_target"] = False
        yield c
    if case.get("noise"):
        c = dict(case)
        c["noise"] = False
        yield c


# ------------------------------------------------------------------------------------------------ one execution
def _mk(case):
    from graphiq.backends.density_matrix.compiler import DensityMatrixCompiler
    from graphiq.backends.stabilizer.compiler import StabilizerCompiler
    from graphiq.metrics import Infidelity
    from graphiq.state import QuantumState

    g = graphs.to_nx((case["n"], [tuple(e) for e in case["edges"]]))
    if case.get("compiled_target") and case["backend"] == "stab":
        from graphiq.circuit.circuit_dag import CircuitDAG

        rr = random.Random(case["seed"] * 31 + case["n"])
        c0 = CircuitDAG(n_emitter=0, n_photon=case["n"], n_classical=0)
        keep_q0_classical = rr.random() < 0.5  # qubit 0 stays in a Z eigenstate: its generator is not the first X-type row
        for _ in range(3 * case["n"]):
            q = rr.randrange(case["n"])
            k = rr.choice(["H", "P", "X", "Z", "CNOT", "H"])
            if keep_q0_classical and q == 0 and k in ("H", "CNOT"):
                k = "X"
            if k == "CNOT":
                if case["n"] < 2:
                    continue
                t = rr.choice([i for i in range(case["n"]) if i != q])
                if keep_q0_classical and t == 0:
                    continue
                c0.add(gq.make_op(["g2", "CNOT", "p", q, "p", t]))
            else:
                c0.add(gq.make_op(["g1", k, "p", q]))
        target = StabilizerCompiler().compile(c0)
    else:
        target = QuantumState(g, rep_type="g")
        target.convert_representation("s" if case["backend"] == "stab" else "dm")
    comp = StabilizerCompiler() if case["backend"] == "stab" else DensityMatrixCompiler()
    comp.measurement_determinism = {0: 0, 1: 1, 2: "probabilistic"}[case["det"]]
    return target, Infidelity(target, log_steps=case.get("log_steps", 1)), comp


def _noise_map(case):
    if not case.get("noise"):
        return None
    import graphiq.noise.noise_models as nm

    return {"e": {"Hadamard": nm.DepolarizingNoise(0.05)}, "p": {}, "ee": {}, "ep": {}}


def hof_view(hof):
    out = []
    for sc, c in hof:
        if c is None:
            out.append([None if not np.isfinite(sc) else float(sc), None])
        else:
            out.append([round(float(sc), 12), c.to_openqasm()])
    return out


def execute(case, pollution):
    """run the solver once in this interpreter; everything returned is JSON-able"""
    warnings.filterwarnings("ignore")
    from graphiq.solvers.evolutionary_solver import EvolutionarySolver, EvolutionarySolverSetting
    from graphiq.solvers.hybrid_solvers import HybridEvolutionarySolver

    # fault: rng_pollution - both global generators are reseeded and advanced by a case-derived amount
    pr = random.Random(pollution)
    np.random.seed(pr.randrange(2**31))
    random.seed(pr.randrange(2**31))
    for _ in range(pr.randrange(40)):
        np.random.rand()
        random.random()
    np.random.randint(0, 5, size=pr.randrange(1, 9))

    target, metric, comp = _mk(case)
    setting = EvolutionarySolverSetting(
        n_hof=case["n_hof"], n_stop=case["n_stop"], n_pop=case["n_pop"], tournament_k=case["tournament_k"],
        selection_active=case["selection"], use_adapt_probability=case["adapt"],
    )
    snaps = []
    K = EvolutionarySolver if case["kind"] == "evo" else HybridEvolutionarySolver

    class S(K):
        def update_logs(self, population, iteration):
            snaps.append(hof_view(self.hof))
            return super().update_logs(population, iteration)

    out = {"exc": None}
    seam = OwnedRNG(random.Random(0), observe=True)
    try:
        with seam:
            if case["kind"] == "evo":
                start = None
                if case.get("given_circuit"):
                    helper = EvolutionarySolver(target=target, metric=metric, compiler=comp, n_emitter=case["ne"], n_photon=case["n"])
                    rr = random.Random(case["seed"] + 101)
                    ea = [0] + [rr.randrange(case["ne"]) for _ in range(case["n"] - 1)]
                    ma = [rr.randrange(case["n"]) for _ in range(case["ne"])]
                    start = helper.initialization(ea, ma)
                s = S(target=target, metric=metric, compiler=comp, circuit=start, n_emitter=case["ne"], n_photon=case["n"], solver_setting=setting)
            else:
                s = S(target=target, metric=metric, compiler=comp, solver_setting=setting, noise_model_mapping=_noise_map(case))
            s.seed(case["seed"])
            s.solve()
    except Exception as e:
        import traceback

        tb = traceback.extract_tb(e.__traceback__)
        where = next((f"{os.path.basename(fr.filename)}:{fr.name}" for fr in reversed(tb) if "/graphiq/" in fr.filename), "?")
        out["exc"] = f"{type(e).__name__}: {e}"[:300]
        out["exc_type"] = type(e).__name__
        out["exc_where"] = where
        out["snaps"] = snaps
        out["draws"] = len(seam.draws)
        return out
    out["hof"] = hof_view(s.hof)
    out["snaps"] = snaps
    # the solver's own per-generation report (logs["hof"]: one row per generation, cost_min = best score so far)
    try:
        tab = s.logs.get("hof") if isinstance(s.logs, dict) else None
        rows = tab.to_dict("records") if hasattr(tab, "to_dict") else list(tab or [])
        out["log_best"] = [[int(r.get("iteration", -1)), (None if r.get("cost_min") is None or not np.isfinite(r.get("cost_min")) else float(r.get("cost_min")))] for r in rows]
    except Exception as e:
        out["log_best"] = None
        out["log_best_exc"] = repr(e)[:200]
    out["digest"] = hashlib.sha256(core.canon(out["hof"]).encode()).hexdigest()[:16]
    out["draw_digest"] = hashlib.sha256(core.canon([[d[0], d[1], d[2]] for d in seam.draws]).encode()).hexdigest()[:16]
    out["draws"] = len(seam.draws)
    sites = {d[0] for d in seam.draws}
    out["two_qubit_drawn"] = any(x.endswith(":add_emitter_cnot") or x.endswith(":add_measurement_cnot_and_reset") for x in sites)
    out["selection_drawn"] = any(x.endswith(":tournament_selection") for x in sites)
    res = s.result
    same_circ = res is not None and (res[1] is s.hof[0][1] or (res[1] is not None and s.hof[0][1] is not None and res[1].to_openqasm() == s.hof[0][1].to_openqasm()))
    out["result_is_hof0"] = bool(same_circ and (res[0] == s.hof[0][0] or (np.isnan(res[0]) and np.isnan(s.hof[0][0]))))
    out["result_score"] = None if res is None else float(res[0])
    # H2: re-evaluate every stored circuit with a fresh compiler of the same setting
    h2 = []
    for sc, c in s.hof:
        if c is None:
            h2.append(None)
            continue
        h2.append(rescore(case, c))
    out["h2"] = h2
    return out


def rescore(case, circ):
    """set of scores the stored circuit can obtain under the compiler setting (one value unless probabilistic)"""
    scores = []

    def once(bits, fallback):
        target, metric, comp = _mk(case)
        if case.get("noise"):
            comp.noise_simulation = True  # the solver scored with its noise model switched on
        script = OutcomeScript(bits, fallback=fallback)
        with OwnedRNG(random.Random(1), outcomes=script):
            st = comp.compile(circ)
            st.partial_trace(keep=list(range(circ.n_photons)), dims=circ.n_quantum * [2])
            sc = metric.evaluate(st, circ)
        scores.append(float(sc))
        return list(script.used)

    # also under forced settings the trace-out of an emitter that is still entangled draws an outcome: enumerate
    leaves, complete, aborted = sweep(once, max_leaves=32 if case["det"] == 2 else 8, extra_samples=0)
    return {"scores": sorted(scores), "complete": bool(complete)}


# ------------------------------------------------------------------------------------------------ other interpreters
_SERVERS = {}


def _server(hashseed):
    p = _SERVERS.get(hashseed)
    if p is not None and p.poll() is None:
        return p
    env = dict(os.environ)
    env["PYTHONHASHSEED"] = str(hashseed)
    env["VERIF_HASHSEED"] = str(hashseed)
    p = subprocess.Popen(
        [sys.executable, os.path.join(core.VERIF_DIR, "sim", "c19_server.py")],
        stdin=subprocess.PIPE, stdout=subprocess.PIPE, stderr=subprocess.DEVNULL, env=env, text=True, bufsize=1,
    )
    _SERVERS[hashseed] = p
    return p


def remote_execute(case, pollution, hashseed):
    p = _server(hashseed)
    try:
        p.stdin.write(json.dumps({"case": case, "pollution": pollution}) + "\n")
        p.stdin.flush()
        line = p.stdout.readline()
    except Exception as e:
        raise core.HarnessError(f"hashseed server {hashseed} failed: {e!r}")
    if not line:
        raise core.HarnessError(f"hashseed server {hashseed} died")
    res = json.loads(line)
    if res.get("hashseed") != str(hashseed):
        raise core.HarnessError(f"server reports hashseed {res.get('hashseed')} expected {hashseed}")
    return res["out"]


# ------------------------------------------------------------------------------------------------ run
def close(a, b):
    if a is None or b is None:
        return a is b
    return bool(np.isclose(a, b, rtol=1e-5, atol=1e-8))


def judge_single(ctx, case, e, tag):
    """H1-H4 on one execution"""
    sig = {"kind": case["kind"]}
    prev_best = None
    views = list(e["snaps"]) + [e["hof"]]
    for gi, view in enumerate(views):
        scores = [v[0] for v in view]
        filled = [s for s in scores if s is not None]
        # unfilled slots must be at the end
        seen_none = False
        for s in scores:
            if s is None:
                seen_none = True
            elif seen_none:
                ctx.violate("H1_order", gi, f"{tag}: filled entry after an unfilled slot: {scores}", sig)
                return False
        for a, b in zip(filled, filled[1:]):
            if a > b and not close(a, b):
                ctx.violate("H1_order", gi, f"{tag}: hall of fame not ordered at generation {gi}: {scores}", sig)
                return False
        if filled:
            if prev_best is not None and filled[0] > prev_best and not close(filled[0], prev_best):
                ctx.violate("H4_best_got_worse", gi, f"{tag}: best score went from {prev_best} to {filled[0]} at generation {gi}", sig)
                return False
            prev_best = filled[0]
        elif prev_best is not None:
            ctx.violate("H4_best_got_worse", gi, f"{tag}: hall of fame emptied at generation {gi}", sig)
            return False
    lb = e.get("log_best")
    if lb is not None:
        # the report the solver itself gives of "best score per generation" must be that of this run: one row per
        # generation, numbered 0.., each showing the best score the hall of fame had at that generation
        bests = [next((v[0] for v in view if v[0] is not None), None) for view in e["snaps"]]
        if len(lb) != len(bests) or [r[0] for r in lb] != list(range(len(bests))):
            ctx.violate("H4_reported_generations", -1, f"{tag}: logs['hof'] has rows for iterations {[r[0] for r in lb][:12]} ({len(lb)} rows), the run had {len(bests)} generations", sig)
            return False
        for gi, (r, b) in enumerate(zip(lb, bests)):
            if not close(r[1], b):
                ctx.violate("H4_reported_best", gi, f"{tag}: logs['hof'].cost_min at generation {gi} is {r[1]}, the hall of fame's best was {b}", sig)
                return False
        ctx.probe("generation_report_checked")
    if any(v[1] is None for v in e["hof"]):
        ctx.probe("hof_unfilled_slots")
    for (sc, qasm), again in zip(e["hof"], e["h2"]):
        if qasm is None:
            continue
        if not any(close(sc, x) for x in again["scores"]):
            if not again["complete"]:
                # more outcome branches than were enumerated (noise mixtures x probabilistic measurements): no verdict
                ctx.probe("h2_inconclusive_branch_space_too_large")
                continue
            ctx.violate("H2_stored_score", -1, f"{tag}: stored score {sc} but the stored circuit re-evaluates to {again['scores'][:4]}", dict(sig, det=case["det"]))
            return False
    if not e["result_is_hof0"]:
        ctx.violate("H3_result_not_best", -1, f"{tag}: solver.result (score {e['result_score']}) is not the first hall-of-fame entry ({e['hof'][0][0]})", sig)
        return False
    return True


def run_case(case):
    ctx = Ctx(ID)
    if case["kind"] == "hyb":
        ctx.probe("hybrid_solver")
    if case["det"] == 2:
        ctx.probe("probabilistic_setting")
    if case["n_hof"] > case["n_pop"]:
        ctx.probe("n_hof_gt_n_pop")
    if case["backend"] == "dm":
        ctx.probe("dm_compiler")
    if case.get("given_circuit"):
        ctx.probe("starting_circuit_given")
    if case.get("log_steps", 1) > 1:
        ctx.probe("metric_log_steps_gt_1")
    if case.get("noise"):
        ctx.probe("noise_model_given")
    if case.get("compiled_target") and case["backend"] == "stab":
        ctx.probe("compiled_signed_target")
    pol = case["pollution"]
    e1 = execute(case, pol[0])
    ctx.fault("rng_pollution")
    ctx.steps += 1
    base_sig = {"kind": case["kind"]}
    if e1["exc"]:
        ctx.violate("unexpected_exception", 0, f"solve() raised {e1['exc']} at {e1.get('exc_where')}", dict(base_sig, exc=e1["exc_type"], where=e1.get("exc_where"), hof_gt_pop=case["n_hof"] > case["n_pop"]))
        return ctx.result(False, sample=case)
    ctx.log("exec1", e1["digest"], e1["draw_digest"], e1["draws"], [v[0] for v in e1["hof"]])
    changes = sum(1 for a, b in zip(e1["snaps"], e1["snaps"][1:]) if a != b) + (1 if e1["snaps"] else 0)
    for a, b in zip(e1["snaps"], e1["snaps"][1:]):
        for x, y in zip(a, b):
            if x[1] is not None and y[1] is not None and x[1] != y[1] and close(x[0], y[0]) and len(y[1]) < len(x[1]):
                ctx.probe("hof_tie_replaced_by_smaller")
    if e1["two_qubit_drawn"]:
        ctx.probe("two_qubit_move_drawn")
    if e1["selection_drawn"]:
        ctx.probe("selection_drawn")
    nontrivial = changes >= 2 and (e1["two_qubit_drawn"] or e1["selection_drawn"])
    if not judge_single(ctx, case, e1, "execution 1"):
        return ctx.result(nontrivial, sample=case)
    # R1: same interpreter, different pollution
    e2 = execute(case, pol[1])
    ctx.fault("rng_pollution")
    ctx.steps += 1
    if not e2["exc"] and e2["digest"] == e1["digest"] and e2["draw_digest"] != e1["draw_digest"]:
        ctx.probe("same_hof_but_different_draw_log")  # not part of the property
    if e2["exc"] or e2["digest"] != e1["digest"]:
        ctx.violate("R1_not_reproducible_in_process", 1, f"same seed {case['seed']}, different RNG history before seed(): hall of fame {e1['digest']} vs {e2.get('digest')} (draw logs {e1['draw_digest']} vs {e2.get('draw_digest')}, exc={e2['exc']})", base_sig)
        return ctx.result(nontrivial, sample=case)
    # R2: other interpreters with other hash seeds
    if os.environ.get("VERIF_C19_NO_RESTART") != "1":
        for k, hs in enumerate([OTHER_HASHSEEDS[0], case["hashseed"]]):
            e3 = remote_execute(case, pol[2 + k], hs)
            ctx.fault("other_hashseed_interpreter")
            ctx.fault("rng_pollution")
            ctx.steps += 1
            if e3["exc"] or e3["digest"] != e1["digest"]:
                ctx.violate("R2_not_reproducible_across_interpreters", 2 + k, f"same seed {case['seed']}: hall of fame under PYTHONHASHSEED=0 is {e1['digest']} (scores {[v[0] for v in e1['hof']]}), under PYTHONHASHSEED={hs} it is {e3.get('digest')} (scores {[v[0] for v in e3.get('hof', [])]}, exc={e3['exc']})", base_sig)
                return ctx.result(nontrivial, sample=case)
            ctx.log("exec_hs", hs, e3["digest"])
    return ctx.result(nontrivial, sample=case)

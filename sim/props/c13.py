"""
C13 - circuit rewrites preserve the state; library calls do not mutate their inputs.

System under simulation: a user session.  One pool of graphiq objects (circuits, their copies / noisy copies, target
states) is driven by a seeded interleaving of compile / metric / solver / noisy-copy / rewrite calls that deliberately
re-uses objects earlier calls have already seen (fault object_reuse).  After every call the observational fingerprint
(openQASM text, per-wire operation + noise descriptors, and the states the object compiles to with fresh private
compilers on both backends, noise switch off/on, outcomes forced 0/1) of every object the call must not change is
compared with the fingerprint taken before.
"""
import copy
import hashlib
import random
import warnings

import numpy as np

import graphiq.noise.noise_models as nm
from graphiq.backends.density_matrix.compiler import DensityMatrixCompiler
from graphiq.backends.stabilizer.compiler import StabilizerCompiler
from graphiq.backends.stabilizer.state import MixedStabilizer, Stabilizer
from graphiq.circuit import ops
from graphiq.metrics import CircuitDepth, Infidelity
from graphiq.state import QuantumState

from sim import core, gq, graphs
from sim.core import Ctx, stream
from sim.props.c01 import gen_program, build
from sim.ref import chp, sv
from sim.seam import OutcomeScript, OwnedRNG

ID = "C13"
RUNS = {"quick": 800, "thorough": 30000}
BUDGET = {"quick": 80, "thorough": 1500}
CHUNK = {"quick": 4, "thorough": 20}
RUN_TIMEOUT_S = 600
KINDS = ["copy", "edit_noise", "replace", "unwrap", "group", "rmid", "assign_empty", "assign_map", "mc", "mc_empty", "compile", "compile_init", "metric", "trs", "evo", "hyb", "alt"]
RULE = (
    "session = pool of 1-2 seeded circuits (random programs as in C01 on <=5 qubits, or a TimeReversedSolver circuit) "
    "and 1-2 targets (graph / stabilizer / density-matrix QuantumState), then 4-14 calls over {copy, unwrap_nodes, "
    "group_one_qubit_gates, remove_identity, assign_noise(empty), assign_noise(map), MonteCarloNoise.one_run, compile "
    "(either backend, noise switch, with/without initial state), metric.evaluate, TimeReversedSolver.solve, 2x2 "
    "EvolutionarySolver / HybridEvolutionarySolver runs, AlternateTargetSolver.solve}, objects chosen among everything created so far. Distinct = distinct event-log digest; "
    "non-trivial = some object was used by >=3 calls of >=2 kinds, at least one of them after a noisy copy was derived from it."
)
PROBES = ["noisy_copy_then_reuse", "compile_with_initial_state", "rewrite_changed_structure", "solver_on_shared_target",
          "metric_on_reused_circuit", "pool_ge_4_circuits", "mc_run", "target_dm", "target_graph", "target_stab", "target_stab_signed", "replace_op_done"]
REAL = ["graphiq.circuit.circuit_dag.CircuitDAG (copy, unwrap_nodes, group_one_qubit_gates, remove_identity, assign_noise)",
        "graphiq.backends.compiler_base.CompilerBase.compile + both compilers", "graphiq.noise.monte_carlo_noise.MonteCarloNoise",
        "graphiq.metrics (Infidelity, CircuitDepth)", "graphiq.solvers.time_reversed_solver.TimeReversedSolver",
        "graphiq.solvers.evolutionary_solver.EvolutionarySolver"]
STUB = ["all random draws answered by the simulator's streams"]
ASSUMPTIONS = [
    "fingerprints are taken on a deep copy of the object so that observing does not perturb the pool",
    "behaviour of a target = its representation type and the state it denotes; behaviour of a circuit = its openQASM text, "
    "per-wire operations with their noise, and the states it compiles to (both backends, noise off/on, forced 0/1)",
    "an empty noise map has an (empty) entry for every register-type key",
]
EMPTY_MAP = lambda: {"e": {}, "p": {}, "ee": {}, "ep": {}, "pe": {}, "pp": {}}  # noqa: E731


# ------------------------------------------------------------------------------------------------ generation
def gen_case(run_seed, tier):
    sz = stream(run_seed, "sizes")
    wl = stream(run_seed, "workload")
    np_ = sz.randint(1, 3)
    ne = sz.randint(1, 2)
    progs = []
    for _ in range(sz.randint(1, 2)):
        progs.append(gen_program(wl, ne, np_, 1, sz.randint(2, 12), allow_ins=False, kinds_w=[40, 20, 25, 10, 5], hbias=0.35,
                                 emitter_control_only=sz.random() < 0.7))  # Monte-Carlo noise maps only know e, p, ee, ep
    tg, fam = graphs.random_graph(sz, np_, np_, connected=False, allow_isolated=False) if np_ >= 2 else ((1, []), "single")
    if np_ >= 2 and graphs.isolated(tg):
        tg = graphs.path(np_)
    length = sz.randint(4, 14 if tier == "thorough" else 10)
    w = {k: 1.0 for k in KINDS}
    w["compile"] = 2.0
    w["mc"] = 1.5
    w["mc_empty"] = 1.5
    w["evo"] = 0.3
    w["hyb"] = 0.3
    w["alt"] = 0.3
    w["trs"] = 0.8
    w["metric"] = 1.6
    for k in KINDS:
        if sz.random() < 0.15:
            w[k] = 0.0
    if sum(w.values()) == 0:
        w["compile"] = 1.0
    hist = []
    for _ in range(length):
        k = wl.choices(KINDS, weights=[w[x] for x in KINDS])[0]
        hist.append([k] + [wl.randrange(1000) for _ in range(5)])
    return {"ne": ne, "np": np_, "programs": progs, "target": [tg[0], [list(e) for e in tg[1]]],
            "target_reps": [sz.choice(["g", "s", "dm", "s-", "s-"]) for _ in range(sz.randint(1, 2))],
            "with_trs_circuit": sz.random() < 0.4 and np_ >= 2, "history": hist, "lseed": sz.randrange(10**9),
            "shuffle_nodes": sz.random() < 0.4, "share_wrapper_lists": sz.random() < 0.3}


def simplify(case):
    if len(case["programs"]) > 1:
        for i in range(len(case["programs"])):
            c = dict(case)
            c["programs"] = case["programs"][:i] + case["programs"][i + 1:]
            yield c
    for pi, prog in enumerate(case["programs"]):
        for i in range(len(prog)):
            c = dict(case)
            ps = [list(p) for p in case["programs"]]
            ps[pi] = prog[:i] + prog[i + 1:]
            c["programs"] = ps
            yield c
    if case["with_trs_circuit"]:
        c = dict(case)
        c["with_trs_circuit"] = False
        yield c
    if len(case["target_reps"]) > 1:
        c = dict(case)
        c["target_reps"] = case["target_reps"][:1]
        yield c


# ------------------------------------------------------------------------------------------------ fingerprints
def noise_desc(x):
    if isinstance(x, list):
        return [noise_desc(y) for y in x]
    if isinstance(x, type):
        return "class:" + x.__name__
    d = getattr(x, "noise_parameters", None)
    items = []
    if isinstance(d, dict):
        for k in sorted(d):
            v = d[k]
            if isinstance(v, np.ndarray):
                v = hashlib.sha1(np.round(v, 9).tobytes()).hexdigest()[:8]
            items.append((k, str(v)))
    return [type(x).__name__, items]


def reduce_state(state):
    rd = state.rep_data
    if isinstance(rd, Stabilizer):
        xs, zs, ss, ips = gq.tableau_rows(rd.data)
        try:
            return ("s", chp.from_bit_rows(rd.data.n_qubits, xs, zs, ss).canon(), tuple(ips))
        except ArithmeticError:
            return ("s-invalid", str(xs), str(zs), str(ss))
    if isinstance(rd, MixedStabilizer):
        out = []
        for p, t in rd.mixture:
            xs, zs, ss, ips = gq.tableau_rows(t)
            try:
                out.append((round(float(p), 9), chp.from_bit_rows(t.n_qubits, xs, zs, ss).canon()))
            except ArithmeticError:
                out.append((round(float(p), 9), ("invalid", str(xs), str(zs), str(ss))))
        merged = {}
        for p, c in out:
            merged[c] = round(merged.get(c, 0.0) + p, 9)
        return ("ms", tuple(sorted(((c, p) for c, p in merged.items()), key=str)))
    return ("dm", np.array(rd.data, dtype=complex))


def same_component(a, b):
    if isinstance(a, tuple) and isinstance(b, tuple) and a and b and a[0] == "dm" and b[0] == "dm":
        return a[1].shape == b[1].shape and np.allclose(a[1], b[1], atol=1e-8)
    if isinstance(a, tuple) and isinstance(b, tuple) and a and b and a[0] == "ms" and b[0] == "ms":
        da, db = dict(a[1]), dict(b[1])
        return set(da) == set(db) and all(abs(da[k] - db[k]) < 1e-7 for k in da)
    return a == b


STATE_KEYS = [(b, nz, d) for b in ("stab", "dm") for nz in (False, True) for d in (0, 1)]


def fp_circuit(circ):
    c = copy.deepcopy(circ)
    parts = {}
    try:
        parts["qasm"] = c.to_openqasm()
    except Exception as e:
        parts["qasm"] = "EXC:" + type(e).__name__
    wires = {}
    for (t, r), lst in gq.circuit_wires(c).items():
        wires[f"{t}{r}"] = [[sp, noise_desc(c.dag.nodes[n]["op"].noise)] for n, sp in lst]
    parts["wires"] = core.canon(wires)
    parts["regs"] = (c.n_emitters, c.n_photons, c.n_classical)
    # (a circuit without any operation carries no noise: an earlier version read "no NoNoise entry" as "noisy", skipped
    # the stabilizer compile of the emptied circuit and then compared a state with the marker - a false alarm of this
    # harness on circuits that remove_identity empties, seen once in a thorough run)
    carries_noise = any(x != "NoNoise" for x in _noise_names(parts["wires"]))
    shared = None
    for (b, nz, d) in STATE_KEYS:
        if b == "stab" and nz and carries_noise:
            # mixed-stabilizer simulation of depolarizing noise branches exponentially; the density-matrix backend
            # covers the noisy semantics, the stabilizer backend the noise-free ones
            parts[("state", b, nz, d)] = ("skipped",)
            continue
        comp = StabilizerCompiler() if b == "stab" else DensityMatrixCompiler()
        comp.measurement_determinism = d
        comp.noise_simulation = nz
        if nz and carries_noise:
            cc = copy.deepcopy(circ)  # noisy compiles rewrite op.noise temporarily: private copy each
        else:
            cc = c  # nothing to rewrite: the observer's own copy is shared by these compiles
        try:
            parts[("state", b, nz, d)] = reduce_state(comp.compile(cc))
        except core.HarnessError:
            raise
        except Exception as e:
            parts[("state", b, nz, d)] = ("EXC", type(e).__name__)
    return parts


def _noise_names(wires_json):
    import re

    names = set(re.findall(r'\["([A-Za-z]+)",\[', wires_json))
    known = {"NoNoise", "DepolarizingNoise", "PauliError", "PhotonLoss", "OneQubitGateReplacement", "TwoQubitControlledGateReplacement", "MixedUnitaryError", "CoherentUnitaryError", "LocalCliffordError"}
    return {x for x in names if x in known or x.endswith(("Noise", "Error", "Loss", "Replacement"))}


def fp_target(t):
    """behaviour of a target = the state it denotes (as a density matrix built by the reference from the raw
    representation data).  The representation type is recorded but not judged: solvers are documented to convert the
    target's representation in place, which keeps the state."""
    t = copy.deepcopy(t)
    rd = t.rep_data
    if t.rep_type == "g":
        G = rd.data
        nodes = list(G.nodes)
        idx = {v: i for i, v in enumerate(nodes)}
        lc = [G.nodes[v].get("LC") for v in nodes]
        rho = sv.graph_state(len(nodes), [(idx[a], idx[b]) for a, b in G.edges]).rho()
        if any(x is not None and [getattr(c, "__name__", str(c)) for c in x] != ["Identity"] for x in lc):
            return {"rep": "g", "state": ("g+lc", str(sorted(G.edges)), str(lc))}
        return {"rep": "g", "state": ("dm", rho)}
    if t.rep_type == "s":
        red = reduce_state(t)
        if red[0] == "s":
            xs, zs, ss, ips = gq.tableau_rows(rd.data)
            return {"rep": "s", "state": ("dm", sv.projector_from_rows(rd.data.n_qubits, list(zip(xs, zs, ss))))}
        return {"rep": "s", "state": red}
    return {"rep": "dm", "state": ("dm", np.array(rd.data, dtype=complex))}


def diff_fp(a, b, keys=None):
    out = []
    for k in (keys or a.keys()):
        if k in b and (a[k] == ("skipped",) or b[k] == ("skipped",)) and isinstance(a[k], tuple) and isinstance(b[k], tuple):
            continue  # not computed on one side: nothing to compare
        if k not in b or not same_component(a[k], b[k]):
            out.append(k)
    return out


def fp_hash(fp):
    h = hashlib.sha1()
    for k in sorted(fp, key=str):
        v = fp[k]
        if isinstance(v, tuple) and v and v[0] == "dm":
            v = ("dm", hashlib.sha1((np.round(v[1], 6) + 0.0).tobytes()).hexdigest()[:10])
        h.update(str(k).encode())
        h.update(str(v).encode())
    return h.hexdigest()[:10]


# ------------------------------------------------------------------------------------------------ helpers
def noise_map(rng):
    m = EMPTY_MAP()
    one = ["Hadamard", "SigmaX", "Phase", "Identity", "SigmaZ", "PhaseDagger", "SigmaY"]
    two = ["CNOT", "CZ"]
    for k in m:
        for name in (one if len(k) == 1 else two):
            if rng.random() < 0.45:
                m[k][name] = rng.choice([nm.DepolarizingNoise(0.1), nm.PauliError("X"), nm.PauliError("Z"), nm.DepolarizingNoise(0.03)])
    if not any(m[k] for k in m):
        m["e"]["Hadamard"] = nm.PauliError("X")
        m["p"]["Hadamard"] = nm.PauliError("Z")
    # placement: noise may act before or after its gate (noise_parameters["After gate"]); for two-qubit gates the two
    # halves may be placed differently, which takes the compile loop through its noise-swapping branches
    for k in m:
        for name in list(m[k]):
            if len(k) == 2 and rng.random() < 0.5:
                a, b = rng.choice([nm.PauliError("X"), nm.DepolarizingNoise(0.1)]), rng.choice([nm.PauliError("Z"), nm.DepolarizingNoise(0.05)])
                a.noise_parameters["After gate"] = rng.random() < 0.5
                b.noise_parameters["After gate"] = rng.random() < 0.5
                m[k][name] = [a, b]
            elif rng.random() < 0.3:
                m[k][name].noise_parameters["After gate"] = False
    return m


def make_signed_target(n, edges, seed):
    """a stabilizer target that is not a graph state in graph form: the state compiled from a short seeded circuit on n
    photons (generators in the order the compile left them, some with a minus sign)"""
    from graphiq.circuit.circuit_dag import CircuitDAG

    rr = random.Random(seed)
    c0 = CircuitDAG(n_emitter=0, n_photon=n, n_classical=0)
    for _ in range(2 + 2 * n):
        q = rr.randrange(n)
        k = rr.choice(["H", "P", "X", "Z", "CNOT", "X"])
        if k == "CNOT":
            if n < 2:
                continue
            c0.add(gq.make_op(["g2", "CNOT", "p", q, "p", rr.choice([i for i in range(n) if i != q])]))
        else:
            c0.add(gq.make_op(["g1", k, "p", q]))
    return StabilizerCompiler().compile(c0)


def make_target(n, edges, rep, order_seed=None):
    if rep == "s-":
        return make_signed_target(n, edges, order_seed if order_seed is not None else 1)
    G = graphs.to_nx((n, edges))
    if order_seed is not None:
        # same labelled graph, vertices created in another order: qubit k is the k-th created vertex throughout graphiq
        import networkx as nx

        order = list(range(n))
        random.Random(order_seed).shuffle(order)
        G = nx.Graph()
        G.add_nodes_from(order)
        G.add_edges_from(edges)
    t = QuantumState(G, rep_type="g")
    if rep != "g":
        t.convert_representation(rep)
    return t


def compiled_photons(circ, backend, det=1, noise=False):
    comp = StabilizerCompiler() if backend == "stab" else DensityMatrixCompiler()
    comp.measurement_determinism = det
    comp.noise_simulation = noise
    st = comp.compile(circ)
    st.partial_trace(keep=list(range(circ.n_photons)), dims=circ.n_quantum * [2])
    return st


# ------------------------------------------------------------------------------------------------ run
def run_case(case):
    warnings.filterwarnings("ignore")
    ctx = Ctx(ID)
    lib = random.Random(case["lseed"])
    ne, np_ = case["ne"], case["np"]
    tn, tedges = case["target"][0], [tuple(e) for e in case["target"][1]]
    circuits = []  # dicts: obj, origin, uses (list of kinds), noisy_derived (bool)
    targets = []
    gq.SHARED_LISTS = {} if case.get("share_wrapper_lists") else None
    if case.get("share_wrapper_lists"):
        ctx.probe("wrappers_built_from_shared_gate_lists")
    with OwnedRNG(lib, outcomes=OutcomeScript([], fallback=random.Random(case["lseed"] + 1)), ctx=ctx):
        try:
            for prog in case["programs"]:
                c, _ = build({"ne": ne, "np": np_, "nc": 1, "history": prog})
                circuits.append({"obj": c, "origin": "program", "uses": [], "noisy_derived": False, "noisy": False})
            for rep in case["target_reps"]:
                targets.append({"obj": make_target(tn, tedges, rep, order_seed=(case["lseed"] + 23) if (case.get("shuffle_nodes") or rep == "s-") else None), "rep": rep})
                ctx.probe({"g": "target_graph", "s": "target_stab", "dm": "target_dm", "s-": "target_stab_signed"}[rep])
            if case["with_trs_circuit"]:
                from graphiq.solvers.time_reversed_solver import TimeReversedSolver

                t0 = make_target(tn, tedges, "g")
                cp = StabilizerCompiler()
                cp.measurement_determinism = 1
                s = TimeReversedSolver(target=t0, metric=Infidelity(t0), compiler=cp)
                s.solve()
                circuits.append({"obj": s.result[1], "origin": "trs", "uses": [], "noisy_derived": False, "noisy": False})
        except core.HarnessError:
            raise
        except Exception as e:
            ctx.probe("pool_construction_failed")
            return ctx.result(False, sample={"skipped": f"{type(e).__name__}: {e}"[:200]})

        fp_cache = {"c": [], "t": []}  # fingerprints taken after the previous call = fingerprints before this one

        def snapshot():
            while len(fp_cache["c"]) < len(circuits):
                fp_cache["c"].append(fp_circuit(circuits[len(fp_cache["c"])]["obj"]))
            while len(fp_cache["t"]) < len(targets):
                fp_cache["t"].append(fp_target(targets[len(fp_cache["t"])]["obj"]))
            return list(fp_cache["c"]), list(fp_cache["t"])

        def check_unchanged(step, what, before, exempt_circuit=None, sig=None):
            bc, bt = before
            for i, c in enumerate(circuits[: len(bc)]):
                now_c = fp_circuit(c["obj"])
                fp_cache["c"][i] = now_c
                if i == exempt_circuit:
                    continue
                d = diff_fp(bc[i], now_c)
                if d:
                    role = "input" if i in used_c else "bystander"
                    ctx.violate("M_circuit_mutated", step, f"{what}: circuit #{i} ({c['origin']}, {role}) changed in {[str(x) for x in d][:4]}",
                                dict(sig or {}, call=what.split(":")[0], role=role, part=str(d[0][0] if isinstance(d[0], tuple) else d[0])))
                    return False
            for i, t in enumerate(targets[: len(bt)]):
                now = fp_target(t["obj"])
                fp_cache["t"][i] = now
                if now["rep"] != bt[i]["rep"]:
                    ctx.probe("target_representation_converted_in_place")
                if not same_component(bt[i]["state"], now["state"]):
                    ctx.violate("M_target_mutated", step, f"{what}: target #{i} (given as {t['rep']}, now {now['rep']}) no longer denotes the same state",
                                dict(sig or {}, call=what.split(":")[0]))
                    return False
            return True

        ok = True
        for step, st in enumerate(case["history"]):
            if not ok:
                break
            if len(circuits) > 6:
                # keep the pool small (every object is fingerprinted after every call): drop the oldest derived object
                drop = next((i for i, c in enumerate(circuits) if c["origin"] != "program"), None)
                if drop is not None:
                    circuits.pop(drop)
                    fp_cache["c"].pop(drop)
            k, a = st[0], st[1:]
            ctx.steps += 1
            ci = a[0] % len(circuits)
            ti = a[1] % len(targets)
            C = circuits[ci]
            T = targets[ti]
            used_c = {ci}
            if C["uses"]:
                ctx.fault("object_reuse")
            before = snapshot()
            what = k
            try:
                if k == "copy":
                    c2 = C["obj"].copy()
                    f2 = fp_circuit(c2)
                    d = diff_fp(before[0][ci], f2)
                    if d:
                        ctx.violate("P_copy_differs", step, f"copy of circuit #{ci} differs in {[str(x) for x in d][:4]}", {"call": "copy"})
                        ok = False
                    circuits.append({"obj": c2, "origin": f"copy({ci})", "uses": [], "noisy_derived": False, "noisy": C["noisy"]})
                elif k == "edit_noise":
                    # the caller attaches a noise object to ONE operation of ONE circuit in place (plain attribute
                    # assignment): every other object of the pool - in particular the circuit this one was copied from
                    # and its other copies - must compile as before
                    nodes = sorted(n_ for n_ in C["obj"].dag.nodes if isinstance(n_, int) and gq.spec_of(C["obj"].dag.nodes[n_]["op"])[0] == "g1"
                                   and type(C["obj"].dag.nodes[n_]["op"].noise).__name__ == "NoNoise")
                    if not nodes or C["origin"] == "program" and not any(x["origin"].startswith("copy") for x in circuits):
                        ctx.log(step, k, "skipped")
                        continue
                    node = nodes[a[2] % len(nodes)]
                    op_ = C["obj"].dag.nodes[node]["op"]
                    op_.noise = nm.DepolarizingNoise(0.2)
                    C["noisy"] = True
                    ctx.fault("object_reuse")
                    ctx.probe("operation_noise_edited_in_place")
                    ok = ok and check_unchanged(step, what, before, exempt_circuit=ci)
                    C["uses"].append(k)
                    ctx.log(step, k, ci, node)
                    continue
                elif k == "replace":
                    # the circuit is edited on purpose through the public replace_op: an Identity placeholder (or another
                    # one-qubit gate) is exchanged for a gate of another class on the same register
                    nodes = sorted(n_ for n_ in C["obj"].dag.nodes if isinstance(n_, int) and gq.spec_of(C["obj"].dag.nodes[n_]["op"])[0] == "g1"
                                   and type(C["obj"].dag.nodes[n_]["op"].noise).__name__ == "NoNoise")
                    if not nodes:
                        ctx.log(step, k, "skipped")
                        continue
                    node = nodes[a[2] % len(nodes)]
                    old_sp = gq.spec_of(C["obj"].dag.nodes[node]["op"])
                    names = [x for x in gq.NAMES1 if x != old_sp[1]]
                    new_sp = ["g1", names[a[3] % len(names)], old_sp[2], old_sp[3]]
                    C["obj"].replace_op(node, gq.make_op(new_sp))
                    ctx.probe("replace_op_done")
                    ok = ok and check_unchanged(step, what, before, exempt_circuit=ci)
                    C["uses"].append(k)
                    ctx.log(step, k, ci, node, new_sp)
                    continue
                elif k in ("unwrap", "group", "rmid"):
                    nb = C["obj"].dag.number_of_nodes()
                    {"unwrap": C["obj"].unwrap_nodes, "group": C["obj"].group_one_qubit_gates, "rmid": C["obj"].remove_identity}[k]()
                    if C["obj"].dag.number_of_nodes() != nb:
                        ctx.probe("rewrite_changed_structure")
                    after = fp_circuit(C["obj"])
                    keys = [kk for kk in before[0][ci] if isinstance(kk, tuple) and kk[0] == "state"]
                    if C["noisy"]:
                        # per-gate noise cannot be carried through regrouping unchanged: only the noise-free semantics is compared
                        keys = [kk for kk in keys if kk[2] is False]
                    d = diff_fp(before[0][ci], after, keys)
                    if d:
                        ctx.violate("P_rewrite_changes_state", step, f"{k} on circuit #{ci} ({C['origin']}) changed the compiled state for {[str(x) for x in d][:4]}", {"call": k})
                        ok = False
                    ok = ok and check_unchanged(step, what, before, exempt_circuit=ci)
                    C["uses"].append(k)
                    ctx.log(step, k, ci, fp_hash(after))
                    continue
                elif k == "assign_empty":
                    c2 = C["obj"].assign_noise(EMPTY_MAP())
                    f2 = fp_circuit(c2)
                    keys = [kk for kk in before[0][ci] if isinstance(kk, tuple) and kk[0] == "state"]
                    if C["noisy"]:
                        keys = [kk for kk in keys if kk[2] is False]
                    d = diff_fp(before[0][ci], f2, keys)
                    if d:
                        ctx.violate("P_empty_noise_changes_state", step, f"assign_noise(empty) of circuit #{ci} compiles differently for {[str(x) for x in d][:4]}", {"call": "assign_empty"})
                        ok = False
                    circuits.append({"obj": c2, "origin": f"assign_empty({ci})", "uses": [], "noisy_derived": False, "noisy": False})
                elif k == "assign_map":
                    c2 = C["obj"].assign_noise(noise_map(random.Random(a[2])))
                    circuits.append({"obj": c2, "origin": f"assign_map({ci})", "uses": [], "noisy_derived": False, "noisy": True})
                    C["noisy_derived"] = True
                elif k == "mc":
                    from graphiq.noise.monte_carlo_noise import MonteCarloNoise, McNoiseMap

                    mp = McNoiseMap()
                    rr = random.Random(a[2])
                    mp.add_gate_noise("e", "Hadamard", [(nm.PauliError("X"), 0.3), (nm.PauliError("Z"), 0.2)])
                    mp.add_gate_noise("p", "Hadamard", [(nm.PauliError("Z"), 0.4)])
                    mp.add_gate_noise("ep", "CNOT", [(nm.PauliError("X"), 0.3)])
                    mp.add_gate_noise("ee", "CNOT", [(nm.PauliError("Z"), 0.3)])
                    if rr.random() < 0.5:
                        mp.add_gate_noise("e", "SigmaX", [(nm.PauliError("Y"), 0.5)])
                        mp.add_gate_noise("p", "Phase", [(nm.PauliError("X"), 0.5)])
                    comp = StabilizerCompiler()
                    comp.measurement_determinism = 1
                    mc = MonteCarloNoise(C["obj"], n_sample=1, mc_noise_model=mp, compiler=comp, seed=a[3])
                    mc.one_run()
                    ctx.probe("mc_run")
                    C["noisy_derived"] = True
                elif k == "mc_empty":
                    from graphiq.noise.monte_carlo_noise import MonteCarloNoise, McNoiseMap

                    comp = StabilizerCompiler()
                    comp.measurement_determinism = 1
                    mc = MonteCarloNoise(C["obj"], n_sample=1, mc_noise_model=McNoiseMap() if a[2] % 2 else None, compiler=comp, seed=a[3])
                    keys = [kk for kk in before[0][ci] if isinstance(kk, tuple) and kk[0] == "state"]
                    if C["noisy"]:
                        keys = [kk for kk in keys if kk[2] is False]
                    for _ in range(4):  # several samples: with an empty map every sample must be the noise-free circuit
                        # one_run() initialises the sampler's counters. Its score is NOT judged: it compares two states
                        # after tracing out emitters, which measures entangled emitters with random outcomes
                        mc.one_run()
                        c2 = mc.assign_noise()
                        f2 = fp_circuit(c2)
                        d = diff_fp(before[0][ci], f2, keys)
                        if d:
                            ctx.violate("P_empty_noise_changes_state", step, f"MonteCarloNoise with an empty noise map: the derived circuit of #{ci} compiles differently for {[str(x) for x in d][:4]}", {"call": "mc_empty"})
                            ok = False
                            break
                    circuits.append({"obj": c2, "origin": f"mc_empty({ci})", "uses": [], "noisy_derived": False, "noisy": False})
                elif k in ("compile", "compile_init"):
                    backend = ["stab", "dm"][a[2] % 2]
                    noise = bool(a[3] % 2)
                    det = a[4] % 2
                    what = f"{k}:{backend}:noise={noise}"

                    def mk():
                        comp = StabilizerCompiler() if backend == "stab" else DensityMatrixCompiler()
                        comp.measurement_determinism = det
                        comp.noise_simulation = noise
                        return comp

                    if k == "compile_init":
                        ctx.probe("compile_with_initial_state")
                        nq = C["obj"].n_quantum
                        pre = [["H", a[2] % nq], ["P", a[3] % nq]] + ([["CNOT", 0, nq - 1]] if nq > 1 else []) + [["X", a[4] % nq]]
                        r = sv.SV(nq)
                        import graphiq.backends.stabilizer.functions.transformation as tr
                        from graphiq.backends.stabilizer.clifford_tableau import CliffordTableau

                        tab = CliffordTableau(nq)
                        for g in pre:
                            if g[0] == "CNOT":
                                r.cnot(g[1], g[2])
                                tab = tr.cnot_gate(tab, g[1], g[2])
                            else:
                                r.u1(g[1], g[0])
                                tab = {"H": tr.hadamard_gate, "P": tr.phase_gate, "X": tr.x_gate}[g[0]](tab, g[1])
                        init = QuantumState(tab, rep_type="s") if backend == "stab" else QuantumState(r.rho(), rep_type="dm")
                        f_init = fp_target(init)
                        s1 = reduce_state(mk().compile(C["obj"], initial_state=init))
                        now = fp_target(init)
                        dd = [] if same_component(f_init["state"], now["state"]) else ["state"]
                        if dd:
                            ctx.violate("M_initial_state_mutated", step, f"{what}: the initial_state passed to compile changed in {dd}", {"call": "compile_init", "backend": backend})
                            ok = False
                        else:
                            s2 = reduce_state(mk().compile(C["obj"], initial_state=init))
                            if not same_component(s1, s2):
                                ctx.violate("P_compile_not_repeatable", step, f"{what}: compiling twice from the same initial_state object gives different states", {"call": "compile_init", "backend": backend})
                                ok = False
                    else:
                        comp = mk()
                        s1 = reduce_state(comp.compile(C["obj"]))
                        s2 = reduce_state(comp.compile(C["obj"]))
                        if not same_component(s1, s2):
                            ctx.violate("P_compile_not_repeatable", step, f"{what}: two consecutive deterministic compiles of circuit #{ci} differ", {"call": "compile", "backend": backend})
                            ok = False
                elif k == "metric":
                    backend = ["stab", "dm"][a[2] % 2]
                    tt = T["obj"]
                    used_t = ti
                    if C["uses"]:
                        ctx.probe("metric_on_reused_circuit")
                    st_ = compiled_photons(C["obj"], backend)
                    try:
                        if tt.rep_type != "g":
                            v1 = Infidelity(tt).evaluate(st_, C["obj"])
                            v2 = Infidelity(tt).evaluate(st_, C["obj"])
                            if not np.isclose(v1, v2):
                                ctx.violate("P_metric_not_repeatable", step, f"Infidelity against target #{ti} ({T['rep']}) evaluated twice on the same state gives {v1} then {v2}", {"call": "metric"})
                                ok = False
                    except (ValueError, AssertionError, TypeError):
                        pass  # representation pairs the metric does not support are not this property's subject
                    import graphiq.metrics as gm

                    cm = [gm.CircuitDepth, gm.CircuitUnitaryCount, gm.CircuitMaxEmitDepth, gm.CircuitMaxEmitResetDepth, gm.CircuitMaxEmitEffDepth,
                          gm.CircuitCnotCount, gm.CircuitMeasureCount, gm.CircuitEmitterCount]
                    for j in range(3):
                        M = cm[(a[3] + j * (1 + a[4] % 5)) % len(cm)]
                        try:
                            M().evaluate(st_, C["obj"])
                        except (KeyError, IndexError, ValueError, TypeError, AttributeError):
                            ctx.probe("circuit_metric_raised")  # what a cost metric returns or supports is C18's subject
                elif k == "trs":
                    from graphiq.solvers.time_reversed_solver import TimeReversedSolver

                    backend = ["stab", "dm"][a[2] % 2]
                    comp = StabilizerCompiler() if backend == "stab" else DensityMatrixCompiler()
                    comp.measurement_determinism = 1
                    ctx.probe("solver_on_shared_target")
                    s = TimeReversedSolver(target=T["obj"], metric=Infidelity(T["obj"]), compiler=comp)
                    s.solve()
                    what = f"trs:{T['rep']}"
                    circuits.append({"obj": s.result[1], "origin": "trs_result", "uses": [], "noisy_derived": False, "noisy": False})
                elif k == "evo":
                    from graphiq.solvers.evolutionary_solver import EvolutionarySolver, EvolutionarySolverSetting

                    comp = StabilizerCompiler()
                    comp.measurement_determinism = 1
                    ctx.probe("solver_on_shared_target")
                    tt = T["obj"]
                    start = None
                    if C["origin"] in ("trs", "trs_result", "hybrid_result", "alternate_result") and a[3] % 2:
                        start = C["obj"]  # the caller's own (solver-style) circuit as starting point: it must come back unchanged
                        ctx.probe("evo_started_from_pool_circuit")
                    s = EvolutionarySolver(target=tt, metric=Infidelity(tt), compiler=comp, circuit=start,
                                           n_emitter=1 if start is None else start.n_emitters, n_photon=tn if start is None else start.n_photons,
                                           solver_setting=EvolutionarySolverSetting(n_hof=2, n_stop=2, n_pop=2))
                    s.seed(a[2])
                    what = f"evo:{T['rep']}"
                    try:
                        s.solve()
                    except (ValueError, UnboundLocalError, AssertionError, TypeError):
                        pass  # metric/representation combinations the solver does not support: not judged here
                elif k == "hyb":
                    from graphiq.solvers.evolutionary_solver import EvolutionarySolverSetting
                    from graphiq.solvers.hybrid_solvers import HybridEvolutionarySolver

                    comp = StabilizerCompiler()
                    comp.measurement_determinism = 1
                    ctx.probe("solver_on_shared_target")
                    tt = T["obj"]
                    what = f"hyb:{T['rep']}"
                    s = HybridEvolutionarySolver(target=tt, metric=Infidelity(tt), compiler=comp, solver_setting=EvolutionarySolverSetting(n_hof=2, n_stop=2, n_pop=2))
                    s.seed(a[2])
                    s.solve()
                    if s.hof[0][1] is not None:
                        circuits.append({"obj": s.hof[0][1], "origin": "hybrid_result", "uses": [], "noisy_derived": False, "noisy": False})
                elif k == "alt":
                    from graphiq.solvers.alternate_target_solver import AlternateTargetSolver, AlternateTargetSolverSetting

                    ctx.probe("solver_on_shared_target")
                    setting = AlternateTargetSolverSetting()
                    setting.n_iso_graphs = 2
                    setting.n_lc_graphs = 2
                    setting.lc_method = [None, "lc_with_iso", "random"][a[3] % 3]
                    what = f"alt:{T['rep']}"
                    s = AlternateTargetSolver(target=T["obj"], solver_setting=setting, seed=a[2])
                    res = s.solve()
                    if res:
                        circuits.append({"obj": res[a[4] % len(res)][0], "origin": "alternate_result", "uses": [], "noisy_derived": False, "noisy": False})
                else:
                    raise core.HarnessError(f"unknown step {st}")
            except core.HarnessError:
                raise
            except Exception as e:
                # crashes of the individual calls belong to other properties (C12, C06, C02...); what C13 judges is
                # whether the pool changed even though the call failed
                ctx.probe("call_raised:" + k)
                ctx.log(step, k, "raised", type(e).__name__)
                ok = ok and check_unchanged(step, what + ":raised", before, exempt_circuit=ci if k in ("unwrap", "group", "rmid", "replace") else None)
                continue
            ok = ok and check_unchanged(step, what, before)
            C["uses"].append(k)
            if C["noisy_derived"] and k not in ("assign_map", "mc"):
                ctx.probe("noisy_copy_then_reuse")
            if len(circuits) >= 4:
                ctx.probe("pool_ge_4_circuits")
            ctx.log(step, k, ci, ti, len(circuits))
    nontrivial = any(len(c["uses"]) >= 3 and len(set(c["uses"])) >= 2 and c["noisy_derived"] for c in circuits)
    return ctx.result(nontrivial, sample={"ne": ne, "np": np_, "programs": case["programs"][:1], "target": case["target"], "target_reps": case["target_reps"], "history": [s[0] for s in case["history"]]})

"""
C12 - the circuit DAG stays structurally consistent under any edit history.

System under simulation: one CircuitDAG object driven through its public edit API by a seeded history; a per-wire
reference model (lists of node ids per quantum register) is stepped in lock-step and the invariants J1-J7 of
DESIGN.md §6 are evaluated after every edit.
"""
import networkx as nx

from sim import core, gq
from sim.core import Ctx, stream

ID = "C12"
RUNS = {"quick": 5000, "thorough": 100000}
BUDGET = {"quick": 60, "thorough": 900}
CHUNK = {"quick": 50, "thorough": 200}
RULE = (
    "history = seeded sequence of 5-60 edits over {add, insert_at, remove_op, replace_op, unwrap_nodes, "
    "group_one_qubit_gates, remove_identity, add_*_register, a rejected add (register index beyond the next free one: must "
    "raise and change nothing), a register-adding edit on a copy (the original must not notice)} on 1-3 emitters, 0-3 "
    "photons, 0-2 classical bits, starting empty or from a TimeReversedSolver circuit; "
    "indices are resolved modulo the candidates available at execution time. Distinct = distinct event-log digest; "
    "non-trivial = the history performed >=1 insert_at of a two-qubit op, >=1 removal and >=1 rewrite "
    "(unwrap/group/identity removal) that changed the circuit."
)
FAULTS_NOTE = "rejected_edit = an illegal edit that must raise and change nothing; object_reuse = a copy of the circuit is edited and the original re-inspected"
PROBES = ["pair_refused_as_incompatible", "insert2_done", "group_changed", "unwrap_changed", "rmid_changed",
          "replace_done", "auto_register_added", "remove_two_qubit", "group_with_measurement_on_wire", "started_from_solver_circuit", "insert2_edges_listed_target_first", "started_from_json_round_trip"]
REAL = ["graphiq.circuit.circuit_dag.CircuitDAG (all edit methods, find_incompatible_edges, sequence, validate)",
        "graphiq.circuit.ops", "graphiq.circuit.register"]
STUB = []
ASSUMPTIONS = [
    "networkx is trusted for acyclicity/topological checks",
    "insert_at is only called with one edge per quantum register of the operation, each on that register's wire, in "
    "either order (the wire is identified by the edge); classical wires are not judged (the property speaks of quantum wires)",
]


# ------------------------------------------------------------------------------------------------ generation
def gen_case(run_seed, tier):
    sz = stream(run_seed, "sizes")
    wl = stream(run_seed, "workload")
    ne, np_, nc = sz.randint(1, 3), sz.randint(0, 3), sz.randint(0, 2)
    length = sz.randint(5, 60 if tier == "thorough" else 40)
    kinds = ["add", "ins", "rm", "rep", "unwrap", "group", "rmid", "reg", "badadd", "copyreg", "badrep", "query"]
    w = {"add": 6, "ins": 6, "rm": 3, "rep": 2, "unwrap": 1, "group": 1, "rmid": 1, "reg": 0.5, "badadd": 0.4, "copyreg": 0.4, "badrep": 0.5, "query": 0.5}
    # swarm: zero some weights
    for k in kinds:
        if sz.random() < 0.15:
            w[k] = 0
    if w["add"] == 0 and w["ins"] == 0:
        w["add"] = 6
    okinds = ["g1", "w", "g2", "cc", "m"]
    ow = [5, 3, 4, 2, 1]
    hist = []
    for _ in range(length):
        k = wl.choices(kinds, weights=[w[x] for x in kinds])[0]
        if k in ("add", "ins"):
            ok = wl.choices(okinds, weights=ow)[0]
            a = [wl.randrange(1000) for _ in range(6)]
            if ok == "w":
                names = [wl.choice(gq.NAMES1) for _ in range(wl.randint(1, 4))]
                hist.append([k, ok, names] + a)
            else:
                hist.append([k, ok, None] + a)
        elif k == "rm":
            hist.append(["rm", wl.randrange(1000)])
        elif k == "rep":
            hist.append(["rep", wl.randrange(1000), wl.randrange(1000), [wl.choice(gq.NAMES1) for _ in range(wl.randint(1, 3))]])
        elif k == "reg":
            hist.append(["reg", wl.choice("epc")])
        elif k == "badadd":
            hist.append(["badadd", wl.choice("ep"), wl.randrange(3), wl.randrange(7)])
        elif k == "badrep":
            hist.append(["badrep", wl.randrange(1000), wl.randrange(3), wl.randrange(1000)])
        elif k == "query":
            hist.append(["query", wl.randrange(1000), wl.randrange(3)])
        elif k == "copyreg":
            hist.append(["copyreg", wl.choice("epc"), wl.randrange(2)])
        else:
            hist.append([k])
    case = {"ne": ne, "np": np_, "nc": nc, "history": hist}
    if sz.random() < 0.08:
        # a wide circuit (two-digit register indices: edge keys "e1" and "e10" ... start to share prefixes), with most
        # operations concentrated on a few registers so that the wires still interact
        t = sz.choice("ep")
        case["ne" if t == "e" else "np"] = sz.randint(11, 13)
        case["hot"] = [[t, 1], [t, sz.choice([10, 10, 11, 12]) if sz.random() < 0.8 else 2], [t, sz.choice([0, 11, 12])], ["e", 0]]
    if sz.random() < 0.12:
        # start from a circuit that went through the JSON export/import (operations rebuilt through their setters)
        case["start_json"] = [h for h in hist[: sz.randint(3, 12)] if h[0] == "add"]
    elif sz.random() < 0.2:
        # start from a solver-made circuit instead of an empty one
        from sim import graphs

        g, _ = graphs.random_graph(sz, 2, 5, connected=sz.random() < 0.7, allow_isolated=False)
        case["start"] = {"n": g[0], "edges": [list(e) for e in g[1]]}
    return case


def simplify(case):
    if case.get("start"):
        c = dict(case)
        c.pop("start")
        yield c
    if case.get("start_json"):
        c = dict(case)
        c.pop("start_json")
        yield c
    for key in ("ne", "np", "nc"):
        lo = 1 if key == "ne" else 0
        if case[key] > lo:
            c = dict(case)
            c[key] = case[key] - 1
            yield c
    for i, st in enumerate(case["history"]):
        if st[0] in ("add", "ins") and st[1] == "w" and len(st[2]) > 1:
            c = dict(case)
            h = [list(s) for s in case["history"]]
            h[i][2] = st[2][:-1]
            c["history"] = h
            yield c
        if st[0] == "ins":
            c = dict(case)
            h = [list(s) for s in case["history"]]
            h[i][0] = "add"
            c["history"] = h
            yield c


# ------------------------------------------------------------------------------------------------ model
class Model:
    def __init__(self, ne, np_, nc):
        self.cnt = {"e": ne, "p": np_, "c": nc}
        self.wires = {("e", i): [] for i in range(ne)}
        self.wires.update({("p", i): [] for i in range(np_)})
        self.spec = {}
        self.next_id = 0

    def regs(self):
        return [("e", i) for i in range(self.cnt["e"])] + [("p", i) for i in range(self.cnt["p"])]

    def new_node(self, spec):
        self.next_id += 1
        self.spec[self.next_id] = spec
        return self.next_id

    def nodes(self):
        return sorted(self.spec)

    def flat(self):
        """per-wire flattened primitive sequence in application order"""
        out = {}
        for key, wire in self.wires.items():
            seq = []
            for n in wire:
                s = self.spec[n]
                if s[0] == "g1":
                    seq.append(s[1])
                elif s[0] == "w":
                    # a wrapper with one noise object unwraps to its gates plus a noise-carrying Identity, applied
                    # after the gates ("After gate") or before them
                    if len(s) > 4 and s[4] == "noise_before":
                        seq.append("I")
                    seq.extend(reversed(s[1]))
                    if len(s) > 4 and s[4] == "noise_after":
                        seq.append("I")
                else:
                    seq.append((s[0], s[1], n))
            out[key] = seq
        return out


def resolve(m, ok, names, a):
    """op spec from kind + integers, modulo the registers available now; None if impossible"""
    regs = m.regs()
    nq = len(regs)
    nc = m.cnt["c"]
    hot = sorted({regs.index(tuple(h)) for h in (getattr(m, "hot", None) or []) if tuple(h) in regs})
    if hot:
        # registers drawn from the hot set three times out of four
        a = list(a)
        for i in (1, 2):
            if (a[i] // 7) % 4:
                a[i] = hot[a[i] % len(hot)] if i == 1 else a[i]
        if (a[2] // 7) % 4 and len(hot) > 1:
            ci = a[1] % nq
            others = [i for i in range(nq) if i != ci]
            want = [h for h in hot if h != ci]
            if want:
                a[2] = others.index(want[a[2] % len(want)])
    if ok == "g1":
        t, r = regs[a[1] % nq]
        return ["g1", gq.NAMES1[a[0] % 7], t, r]
    if ok == "w":
        t, r = regs[a[1] % nq]
        if a[0] % 5 == 0:
            return ["w", list(names), t, r, "noise_after" if a[0] % 2 else "noise_before"]
        return ["w", list(names), t, r]
    if ok in ("g2", "cc"):
        if nq < 2:
            return None
        ci = a[1] % nq
        others = [i for i in range(nq) if i != ci]
        ti = others[a[2] % len(others)]
        (ct, cr), (tt, tr) = regs[ci], regs[ti]
        if ok == "g2":
            return ["g2", ["CNOT", "CZ"][a[0] % 2], ct, cr, tt, tr]
        if nc < 1:
            return None
        return ["cc", ["CCNOT", "CCZ", "MCR"][a[0] % 3], ct, cr, tt, tr, a[3] % nc]
    if ok == "m":
        if nc < 1:
            return None
        t, r = regs[a[1] % nq]
        return ["m", t, r, a[3] % nc]
    raise ValueError(ok)


# ------------------------------------------------------------------------------------------------ invariants
def check_invariants(ctx, step, circ, m, what):
    dag = circ.dag
    sig = {"after": what}
    # J1
    if not nx.is_directed_acyclic_graph(dag):
        ctx.violate("J1_acyclic", step, "graph has a cycle", sig)
        return False
    ins = {f"{t}{i}_in" for t in "epc" for i in range(m.cnt[t])}
    outs = {f"{t}{i}_out" for t in "epc" for i in range(m.cnt[t])}
    sources = {n for n, d in dag.in_degree() if d == 0}
    sinks = {n for n, d in dag.out_degree() if d == 0}
    if sources != ins or sinks != outs:
        ctx.violate("J1_sources_sinks", step, f"sources={sorted(map(str, sources))} sinks={sorted(map(str, sinks))} expected in/out of {m.cnt}", sig)
        return False
    try:
        circ.validate()
    except Exception as e:
        ctx.violate("J1_validate", step, repr(e), sig)
        return False
    # J6 register counts
    got = {"e": circ.n_emitters, "p": circ.n_photons, "c": circ.n_classical}
    if got != m.cnt or circ.n_quantum != m.cnt["e"] + m.cnt["p"]:
        ctx.violate("J6_register_counts", step, f"got {got} model {m.cnt}", sig)
        return False
    # node set
    interior = sorted(n for n in dag.nodes if n not in ins and n not in outs)
    if interior != m.nodes():
        ctx.violate("J2_node_set", step, f"graph nodes {interior} model {m.nodes()}", sig)
        return False
    # J2 wires
    for (t, r), wire in m.wires.items():
        try:
            nodes = gq.wire_nodes(circ, t, r)
        except ValueError as e:
            ctx.violate("J2_wire_path", step, str(e), sig)
            return False
        if nodes[1:-1] != wire:
            ctx.violate("J2_wire_order", step, f"wire {t}{r}: graph {nodes[1:-1]} model {wire}", sig)
            return False
        # every edge keyed by this register is on the path
        key = f"{t}{r}"
        n_edges = sum(1 for e in dag.edges(keys=True) if e[2] == key)
        if n_edges != len(nodes) - 1:
            ctx.violate("J2_wire_extra_edges", step, f"wire {key}: {n_edges} edges, path has {len(nodes) - 1}", sig)
            return False
    for n in interior:
        op = dag.nodes[n]["op"]
        sp = gq.spec_of(op)
        if sp != m.spec[n]:
            ctx.violate("J2_node_op", step, f"node {n}: graph op {sp} model {m.spec[n]}", sig)
            return False
        for (t, r) in gq.qregs(sp):
            if n not in m.wires.get((t, r), []):
                ctx.violate("J2_op_off_wire", step, f"node {n} {sp} not on wire {t}{r}", sig)
                return False
        regs_of_node = [(t, r) for (t, r), w in m.wires.items() if n in w]
        if sorted(regs_of_node) != sorted(set(gq.qregs(sp))):
            ctx.violate("J2_wire_membership", step, f"node {n} {sp} lies on wires {regs_of_node}", sig)
            return False
    # edge attributes
    for u, v, k, d in dag.edges(keys=True, data=True):
        if k != f"{d.get('reg_type')}{d.get('reg')}":
            ctx.violate("J3_edge_attrs", step, f"edge {(u, v, k)} has attrs {d}", sig)
            return False
    # J3 indexes
    by_type = {}
    for u, v, k, d in dag.edges(keys=True, data=True):
        by_type.setdefault(d["reg_type"], []).append((u, v, k))
    for t in set(by_type) | set(circ.edge_dict):
        a = sorted(map(str, by_type.get(t, [])))
        b = sorted(map(str, circ.edge_dict.get(t, [])))
        if a != b:
            ctx.violate("J3_edge_dict", step, f"type {t}: graph {a[:6]}.. index {b[:6]}..", sig)
            return False
    want = {}
    for n in dag.nodes:
        op = dag.nodes[n]["op"]
        if n in ins:
            keys = ["Input"]
        elif n in outs:
            keys = ["Output"]
        else:
            # the register-type key is derived here from the operation's register types, not asked from the operation
            keys = list(op.labels) + [type(op).__name__, "-".join({"e": "Emitter", "p": "Photonic"}.get(t, "?") for t in op.q_registers_type)]
        for k in keys:
            want.setdefault(k, []).append(n)
    for k in set(want) | set(circ.node_dict):
        a = sorted(map(str, want.get(k, [])))
        b = sorted(map(str, circ.node_dict.get(k, [])))
        if a != b:
            ctx.violate("J3_node_dict", step, f"key {k!r}: graph {a} index {b}", {"after": what, "key": k if k in ("Input", "Output", "one-qubit", "two-qubit") else "other"})
            return False
    # query API agrees
    for labels in (["one-qubit"], ["two-qubit"], ["CNOT"]):
        if all(l in circ.node_dict for l in labels):
            got_nodes = sorted(map(str, circ.get_node_by_labels(labels)))
            exp = sorted(map(str, set.intersection(*[set(want.get(l, [])) for l in labels])))
            if got_nodes != exp:
                ctx.violate("J3_query", step, f"get_node_by_labels({labels}) = {got_nodes} expected {exp}", sig)
                return False
    # J4 sequence
    seq = circ.sequence()
    pos = {}
    for i, op in enumerate(seq):
        if id(op) in pos:
            ctx.violate("J4_sequence_dup", step, f"operation object twice in sequence at {pos[id(op)]} and {i}", sig)
            return False
        pos[id(op)] = i
    if len(seq) != dag.number_of_nodes():
        ctx.violate("J4_sequence_len", step, f"{len(seq)} ops for {dag.number_of_nodes()} nodes", sig)
        return False
    for u, v in dag.edges():
        pu, pv = pos.get(id(dag.nodes[u]["op"])), pos.get(id(dag.nodes[v]["op"]))
        if pu is None or pv is None or not pu < pv:
            ctx.violate("J4_sequence_order", step, f"edge {u}->{v} not respected ({pu},{pv})", sig)
            return False
    # unwrapped sequence: per wire equals the flattened model
    useq = circ.sequence(unwrapped=True)
    flat = m.flat()
    per = {k: [] for k in m.wires}
    for op in useq:
        sp = gq.spec_of(op)
        if sp is None:
            continue
        for (t, r) in gq.qregs(sp):
            if (t, r) not in per:
                ctx.violate("J4_unwrapped_sequence", step, f"sequence(unwrapped=True) yields {sp} on register {t}{r}, which the circuit does not have", sig)
                return False
            per[(t, r)].append(sp[1] if sp[0] == "g1" else (sp[0], sp[1]))
    for k in per:
        exp = [x if isinstance(x, str) else (x[0], x[1]) for x in flat[k]]
        if per[k] != exp:
            ctx.violate("J4_unwrapped_sequence", step, f"wire {k}: unwrapped sequence {per[k]} model {exp}", sig)
            return False
    return True


def resync(m, circ):
    """after a rewrite: adopt node ids / specs from the graph (structure already checked by J1-J4 against itself)"""
    m.spec = {}
    for n in circ.dag.nodes:
        sp = gq.spec_of(circ.dag.nodes[n]["op"])
        if sp is not None:
            m.spec[n] = sp
    for key in m.wires:
        m.wires[key] = gq.wire_nodes(circ, key[0], key[1])[1:-1]
    m.next_id = circ._node_id


# ------------------------------------------------------------------------------------------------ run
def run_case(case):
    ctx = Ctx(ID)
    circ = None
    if case.get("start"):
        try:
            from graphiq.backends.stabilizer.compiler import StabilizerCompiler
            from graphiq.metrics import Infidelity
            from graphiq.solvers.time_reversed_solver import TimeReversedSolver
            from graphiq.state import QuantumState
            from sim import graphs

            tg = QuantumState(graphs.to_nx((case["start"]["n"], [tuple(e) for e in case["start"]["edges"]])), rep_type="g")
            cp = StabilizerCompiler()
            cp.measurement_determinism = 1
            sol = TimeReversedSolver(target=tg, metric=Infidelity(tg), compiler=cp)
            sol.solve()
            circ = sol.result[1]
            m = Model(circ.n_emitters, circ.n_photons, circ.n_classical)
            resync(m, circ)
            ctx.probe("started_from_solver_circuit")
        except core.HarnessError:
            raise
        except Exception:
            circ = None  # the solver's own failures are C02's subject
    if circ is None and case.get("start_json"):
        try:
            c0 = gq.CircuitDAG(n_emitter=case["ne"], n_photon=case["np"], n_classical=case["nc"])
            m0 = Model(case["ne"], case["np"], case["nc"])
            for st0 in case["start_json"]:
                sp0 = resolve(m0, st0[1], st0[2], st0[3:])
                if sp0 is None or (sp0[0] == "w" and len(sp0) > 4):
                    continue
                c0.add(gq.make_op(sp0))
                n0_ = m0.new_node(sp0)
                for key in gq.qregs(sp0):
                    m0.wires[key].append(n0_)
            circ = gq.CircuitDAG.from_json(c0.to_json())
            m = Model(circ.n_emitters, circ.n_photons, circ.n_classical)
            resync(m, circ)
            ctx.probe("started_from_json_round_trip")
        except core.HarnessError:
            raise
        except Exception:
            circ = None  # export/import failures are C14's subject
    if circ is None:
        circ = gq.CircuitDAG(n_emitter=case["ne"], n_photon=case["np"], n_classical=case["nc"])
        m = Model(case["ne"], case["np"], case["nc"])
    if case.get("hot"):
        m.hot = case["hot"]
        ctx.probe("wide_circuit_two_digit_registers")
    did = {"ins2": 0, "rm": 0, "rw": 0}
    ok = check_invariants(ctx, -1, circ, m, "init")
    for step, st in enumerate(case["history"]):
        if not ok:
            break
        k = st[0]
        ctx.steps += 1
        try:
            if k in ("add", "ins"):
                spec = resolve(m, st[1], st[2], st[3:])
                if spec is None:
                    ctx.log(step, k, "skipped")
                    continue
                qr = gq.qregs(spec)
                if k == "add":
                    op = gq.make_op(spec)
                    circ.add(op)
                    n = m.new_node(spec)
                    for key in qr:
                        m.wires[key].append(n)
                    ctx.log(step, "add", spec, n)
                else:
                    epos = [st[3 + 4 + i] % (len(m.wires[key]) + 1) for i, key in enumerate(qr)]
                    edges = []
                    for key, p in zip(qr, epos):
                        w = [f"{key[0]}{key[1]}_in"] + m.wires[key] + [f"{key[0]}{key[1]}_out"]
                        edges.append((w[p], w[p + 1], f"{key[0]}{key[1]}"))
                    if len(qr) == 2:
                        inc = circ.find_incompatible_edges(edges[0])
                        if edges[1] in inc:
                            ctx.probe("pair_refused_as_incompatible")
                            ctx.log(step, "ins", spec, epos, "refused")
                            continue
                    op = gq.make_op(spec)
                    give = list(edges)
                    if len(qr) == 2 and (st[3 + 2] // 13) % 2:
                        give.reverse()  # the wire is determined by each edge itself, not by its position in the list
                        ctx.probe("insert2_edges_listed_target_first")
                    circ.insert_at(op, give)
                    n = m.new_node(spec)
                    for key, p in zip(qr, epos):
                        m.wires[key].insert(p, n)
                    if len(qr) == 2:
                        did["ins2"] += 1
                        ctx.probe("insert2_done")
                    ctx.log(step, "ins", spec, epos, n)
            elif k == "rm":
                nodes = m.nodes()
                if not nodes:
                    ctx.log(step, "rm", "skipped")
                    continue
                n = nodes[st[1] % len(nodes)]
                if len(gq.qregs(m.spec[n])) == 2:
                    ctx.probe("remove_two_qubit")
                circ.remove_op(n)
                for w in m.wires.values():
                    if n in w:
                        w.remove(n)
                del m.spec[n]
                did["rm"] += 1
                ctx.log(step, "rm", n)
            elif k == "rep":
                nodes = m.nodes()
                if not nodes:
                    ctx.log(step, "rep", "skipped")
                    continue
                n = nodes[st[1] % len(nodes)]
                old = m.spec[n]
                if old[0] in ("g1", "w"):
                    if st[2] % 2:
                        new = ["w", list(st[3]), old[2], old[3]]
                    else:
                        new = ["g1", gq.NAMES1[st[2] % 7], old[2], old[3]]
                elif old[0] == "g2":
                    new = ["g2", ["CNOT", "CZ"][st[2] % 2]] + old[2:]
                elif old[0] == "cc":
                    new = ["cc", ["CCNOT", "CCZ", "MCR"][st[2] % 3]] + old[2:]
                else:
                    new = list(old)
                circ.replace_op(n, gq.make_op(new))
                m.spec[n] = new
                ctx.probe("replace_done")
                ctx.log(step, "rep", n, new)
            elif k == "badadd":
                # a rejected edit: a one-qubit gate on a register index beyond the next free one must raise and leave
                # the circuit (graph, indexes, register counts) exactly as it was
                t = st[1]
                spec = ["g1", gq.NAMES1[st[3] % 7], t, m.cnt[t] + 1 + st[2]]
                try:
                    circ.add(gq.make_op(spec))
                except ValueError:
                    ctx.fault("rejected_edit")
                    ctx.log(step, "badadd", spec, "rejected")
                else:
                    ctx.violate("J6_register_gap_accepted", step, f"add of {spec} was accepted although register {t}{m.cnt[t]} does not exist", {"after": "badadd"})
                    break
            elif k == "query":
                # the caller asks the label index for nodes and then uses the answers as its own lists (empties them,
                # appends to them): the answers are the caller's, the index must still agree with the graph
                labels = sorted(str(x) for x in circ.node_dict)
                if not labels:
                    continue
                lab = labels[st[1] % len(labels)]
                answers = [circ.get_node_by_labels([lab]), circ.get_node_exclude_labels([lab])]
                if st[2] == 1 and len(labels) > 1:
                    answers.append(circ.get_node_by_labels([lab, labels[(st[1] + 1) % len(labels)]]))
                for ans in answers:
                    if isinstance(ans, list):
                        if st[2] == 2:
                            ans.append(10**6)
                        else:
                            ans.clear()
                ctx.fault("object_reuse")
                ctx.probe("label_query_answers_edited_by_caller")
                ctx.log(step, "query", lab, st[2])
            elif k == "badrep":
                # a replacement that acts on other registers than the node it replaces (indices exchanged between control
                # and target, roles exchanged, or a neighbouring register): refused, or - if the library takes it - the
                # circuit must still be one in which every wire visits exactly the operations acting on its register
                nodes = m.nodes()
                if not nodes:
                    ctx.log(step, "badrep", "skipped")
                    continue
                n = nodes[st[1] % len(nodes)]
                old = m.spec[n]
                new = list(old)
                if old[0] in ("g2", "cc"):
                    if st[2] == 0:
                        new[3], new[5] = old[5], old[3]  # indices exchanged, types kept
                    elif st[2] == 1:
                        new[2], new[3], new[4], new[5] = old[4], old[5], old[2], old[3]  # control and target exchanged
                    else:
                        new[5] = (old[5] + 1 + st[3] % 2) % max(1, m.cnt[old[4]])
                elif old[0] in ("g1", "w"):
                    new[3] = (old[3] + 1 + st[3] % 2) % max(1, m.cnt[old[2]])
                else:
                    new[2] = (old[2] + 1) % max(1, m.cnt[old[1]])
                if new == list(old) or any(r >= m.cnt[t] for t, r in gq.qregs(new)) or len(set(gq.qregs(new))) != len(gq.qregs(new)):
                    ctx.log(step, "badrep", "skipped")
                    continue
                ctx.fault("rejected_edit")
                try:
                    circ.replace_op(n, gq.make_op(new))
                except core.HarnessError:
                    raise
                except Exception as e:
                    ctx.probe("replace_on_other_registers_refused")
                    ctx.log(step, "badrep", old, new, type(e).__name__)
                else:
                    if sorted(gq.qregs(new)) != sorted(gq.qregs(old)):
                        ctx.violate("J6_replace_on_other_registers_accepted", step, f"replace_op put {new} in the place of {old}: the node now lies on the wires of registers it does not act on", {"after": "badrep"})
                        break
                    m.spec[n] = new
                    ctx.probe("replace_with_exchanged_roles_accepted")
                    ctx.log(step, "badrep", old, new, "accepted")
            elif k == "copyreg":
                # edit a copy (register-adding edit on the copy): the original must not notice
                t = st[1]
                c2 = circ.copy()
                if st[2]:
                    {"e": c2.add_emitter_register, "p": c2.add_photonic_register, "c": c2.add_classical_register}[t]()
                elif t != "c":
                    c2.add(gq.make_op(["g1", "H", t, m.cnt[t]]))
                ctx.fault("object_reuse")
                ctx.log(step, "copyreg", t, st[2])
            elif k == "reg":
                t = st[1]
                {"e": circ.add_emitter_register, "p": circ.add_photonic_register, "c": circ.add_classical_register}[t]()
                if t != "c":
                    m.wires[(t, m.cnt[t])] = []
                m.cnt[t] += 1
                ctx.probe("auto_register_added")
                ctx.log(step, "reg", t)
            else:
                before = m.flat()
                nb = len(m.spec)
                if k == "group" and any(s[0] == "m" for s in m.spec.values()):
                    ctx.probe("group_with_measurement_on_wire")
                {"unwrap": circ.unwrap_nodes, "group": circ.group_one_qubit_gates, "rmid": circ.remove_identity}[k]()
                # J7: flattened primitive sequence unchanged (identities dropped for rmid; grouping may not drop anything)
                try:
                    resync(m, circ)
                except ValueError as e:
                    ctx.violate("J2_wire_path", step, str(e), {"after": k})
                    break
                after = m.flat()

                def strip(fl, drop_id):
                    out = {}
                    for key, seq in fl.items():
                        out[key] = [x if isinstance(x, str) else (x[0], x[1], x[2]) for x in seq if not (drop_id and x == "I")]
                    return out

                if strip(before, k == "rmid") != strip(after, k == "rmid"):
                    # gate content is C13's business (state preservation); here it is only counted
                    ctx.probe("rewrite_changed_gate_sequence")
                if len(m.spec) != nb or before != after:
                    did["rw"] += 1
                    ctx.probe({"unwrap": "unwrap_changed", "group": "group_changed", "rmid": "rmid_changed"}[k])
                ctx.log(step, k, len(m.spec))
        except core.HarnessError:
            raise
        except Exception as e:
            ctx.violate("unexpected_exception", step, f"{k}: {type(e).__name__}: {e}", {"op": k if k not in ("add", "ins") else k + ":" + st[1], "exc": type(e).__name__})
            break
        ok = check_invariants(ctx, step, circ, m, k)
    nontrivial = did["ins2"] >= 1 and did["rm"] >= 1 and did["rw"] >= 1
    return ctx.result(nontrivial, sample={"ne": case["ne"], "np": case["np"], "nc": case["nc"], "history": case["history"][:12], "events": [list(map(str, e)) for e in ctx.events[:12]]})

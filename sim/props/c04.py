"""
C04 - generated and mutated circuits respect the photonic emission constraints.

System under simulation: the mutation moves of EvolutionarySolver / HybridEvolutionarySolver applied as a seeded
history to a solver-made initial circuit (EvolutionarySolver.initialization, TimeReversedSolver, AlternateTargetSolver
results), every random draw inside a move being answered by the simulator-owned RNG (with 'extreme but legal' answers
injected at a swarm-chosen rate).  Invariants I1-I5 of DESIGN.md §6 after every move.
"""
import random
import warnings

import networkx as nx

from graphiq.backends.stabilizer.compiler import StabilizerCompiler
from graphiq.circuit import ops
from graphiq.metrics import Infidelity
from graphiq.solvers.evolutionary_solver import EvolutionarySolver
from graphiq.solvers.hybrid_solvers import HybridEvolutionarySolver
from graphiq.solvers.time_reversed_solver import TimeReversedSolver
from graphiq.state import QuantumState

from sim import core, gq, graphs
from sim.core import Ctx, stream
from sim.seam import OutcomeScript, OwnedRNG

ID = "C04"
RUNS = {"quick": 2400, "thorough": 60000}
BUDGET = {"quick": 75, "thorough": 1500}
CHUNK = {"quick": 20, "thorough": 100}
MOVES = ["add_emitter_one_qubit_op", "add_emitter_cnot", "replace_photon_one_qubit_op", "add_photon_one_qubit_op",
         "remove_op", "remove_op_node", "add_measurement_cnot_and_reset", "select", "rejected_replace", "peek"]
RULE = (
    "initial circuit from EvolutionarySolver.initialization (seam-chosen emission/measurement assignment, 1-3 emitters, "
    "1-5 photons), from TimeReversedSolver on a seeded target (n<=6), or an entry of an AlternateTargetSolver result; "
    "then a history of 5-80 moves over {add_emitter_one_qubit_op, add_emitter_cnot, replace_photon_one_qubit_op, "
    "add_photon_one_qubit_op, remove_op (random / explicit node incl. Fixed ones), add_measurement_cnot_and_reset, "
    "tournament selection, fault rejected_edit = an impossible replace_op that is refused} (the TimeReversedSolver object is used for 1-3 solve() calls, every result judged) "
    "(replace_emitter_one_qubit_op is reached through the fallback of add_emitter_one_qubit_op); all RNG draws owned, rng_extreme injected at a per-run rate. Distinct = distinct "
    "event-log digest; non-trivial = >=2 emitters, >=1 two-qubit insertion that happened and >=1 removal that happened."
)
PROBES = ["impossible_replace_refused", "deterministic_solver_object_reused", "two_qubit_inserted", "removal_happened", "fixed_removal_refused", "no_position_for_two_qubit",
          "init_from_time_reversed", "init_from_initialization", "init_from_alternate", "measurement_inserted",
          "fallback_replace_used", "selection_done", "alternate_source_with_noise_model"]
REAL = ["graphiq.solvers.evolutionary_solver.EvolutionarySolver (all mutation moves, initialization, assignments)",
        "graphiq.solvers.hybrid_solvers.HybridEvolutionarySolver (same moves)",
        "graphiq.solvers.time_reversed_solver.TimeReversedSolver", "graphiq.circuit.circuit_dag.CircuitDAG"]
STUB = ["numpy.random.randint / numpy.random.choice inside the moves answered by the simulator stream (with rng_extreme)"]
ASSUMPTIONS = ["the target/metric/compiler handed to the solver object are real but irrelevant to the moves"]


def gen_case(run_seed, tier):
    sz = stream(run_seed, "sizes")
    wl = stream(run_seed, "workload")
    src = sz.choice(["init", "init", "trs", "trs", "alt"])
    case = {"src": src, "lseed": sz.randrange(10**9), "bug_rate": sz.choice([0.0, 0.05, 0.2, 0.5])}
    if src == "init":
        case["ne"] = sz.randint(1, 3)
        case["np"] = sz.randint(max(1, case["ne"]), 5)
        if sz.random() < 0.12:
            case["np"] = sz.randint(10, 13)  # two-digit register indices
            case["ne"] = sz.randint(2, 3)
    else:
        g, fam = graphs.random_graph(sz, 2, 6 if src == "trs" else 5, connected=(src == "alt"), allow_isolated=False)
        case["n"], case["edges"] = g[0], [list(e) for e in g[1]]
    length = sz.randint(5, 80 if tier == "thorough" else 40)
    w = {m: 1.0 for m in MOVES}
    for m in MOVES:
        if sz.random() < 0.2:
            w[m] = 0.0
    if sum(w.values()) == 0:
        w["add_emitter_one_qubit_op"] = 1.0
    w["select"] = 0.35 if w["select"] else 0.0  # tournament selection between moves (population of copies)
    w["peek"] = 0.4 if sz.random() < 0.4 else 0.0  # a read-only look at the insertion positions, nothing inserted
    w["rejected_replace"] = 0.3 if sz.random() < 0.4 else 0.0  # fault: an impossible replace_op is refused, the moves go on
    if src == "trs":
        case["trs_solves"] = sz.choice([1, 1, 2, 3])  # the deterministic solver object used again: every result is judged
    case["alt_noise"] = src == "alt" and sz.random() < 0.4
    hist = []
    for _ in range(length):
        m = wl.choices(MOVES, weights=[w[x] for x in MOVES])[0]
        hist.append([m, wl.randrange(1000)])
    case["history"] = hist
    return case


def simplify(case):
    if case["bug_rate"] != 0.0:
        c = dict(case)
        c["bug_rate"] = 0.0
        yield c
    if case["src"] == "init":
        if case["np"] > max(1, case["ne"]):
            c = dict(case)
            c["np"] -= 1
            yield c
        if case["ne"] > 1:
            c = dict(case)
            c["ne"] -= 1
            yield c
    else:
        for i in range(len(case["edges"])):
            c = dict(case)
            c["edges"] = case["edges"][:i] + case["edges"][i + 1:]
            if graphs.isolated((case["n"], [tuple(e) for e in c["edges"]])):
                continue
            yield c


# ------------------------------------------------------------------------------------------------ invariants
def photon_structure(circ):
    """returns None or (invariant, message)"""
    dag = circ.dag
    if not nx.is_directed_acyclic_graph(dag):
        return "I1_acyclic", "cycle in the DAG"
    try:
        circ.validate()
    except Exception as e:
        return "I1_validate", repr(e)
    for r in range(circ.n_emitters):
        try:
            for nn in gq.wire_nodes(circ, "e", r)[1:-1]:
                o = dag.nodes[nn]["op"]
                if ("e", r) not in list(zip(o.q_registers_type, o.q_registers)):
                    return "I1_op_on_foreign_wire", f"node {nn} {gq.spec_of(o)} lies on the wire of emitter {r} but does not act on it"
        except ValueError as e:
            return "I1_wire", str(e)
    for n in dag.nodes:
        op = dag.nodes[n]["op"]
        if isinstance(op, (ops.ControlledPairOperationBase, ops.ClassicalControlledPairOperationBase)):
            if op.control_type == "p" and op.target_type == "p":
                return "I2_photon_photon_gate", f"node {n}: {type(op).__name__} between photons {op.control} and {op.target}"
    for r in range(circ.n_photons):
        try:
            nodes = gq.wire_nodes(circ, "p", r)[1:-1]
        except ValueError as e:
            return "I1_wire", str(e)
        if not nodes:
            return "I3_photon_never_emitted", f"photon {r} has no operation at all"
        for nn in nodes:
            o = dag.nodes[nn]["op"]
            if ("p", r) not in list(zip(o.q_registers_type, o.q_registers)):
                return "I1_op_on_foreign_wire", f"node {nn} {gq.spec_of(o)} lies on the wire of photon {r} but does not act on it"
        first = dag.nodes[nodes[0]]["op"]
        if not (type(first) is ops.CNOT and first.control_type == "e" and first.target_type == "p" and first.target == r):
            return "I3_first_op_not_emission", f"photon {r}: first operation is {gq.spec_of(first)}"
        for n in nodes[1:]:
            op = dag.nodes[n]["op"]
            if isinstance(op, ops.OneQubitOperationBase):
                continue
            if isinstance(op, ops.ClassicalControlledPairOperationBase) and op.target_type == "p" and op.target == r and not (op.control_type == "p" and op.control == r):
                continue
            return "I4_photon_touched_after_emission", f"photon {r}: later operation {gq.spec_of(op)} (node {n})"
    return None


def fixed_nodes(circ):
    """{node: spec} for every emission CNOT (first op of a photon wire) and every measure-and-reset"""
    out = {}
    dag = circ.dag
    for n in dag.nodes:
        op = dag.nodes[n]["op"]
        if type(op) is ops.MeasurementCNOTandReset:
            out[n] = gq.spec_of(op)
    for r in range(circ.n_photons):
        nodes = gq.wire_nodes(circ, "p", r)[1:-1]
        if nodes and type(dag.nodes[nodes[0]]["op"]) is ops.CNOT:
            out[nodes[0]] = gq.spec_of(dag.nodes[nodes[0]]["op"])
    return out


# ------------------------------------------------------------------------------------------------ run
def make_initial(ctx, case, rng_lib):
    """returns (circuit, solver_for_moves) or raises"""
    comp = StabilizerCompiler()
    comp.measurement_determinism = 1
    if case["src"] == "init":
        ne, np_ = case["ne"], case["np"]
        tg = QuantumState(graphs.to_nx(graphs.path(np_)), rep_type="g")
        solver = EvolutionarySolver(target=tg, metric=Infidelity(tg), compiler=comp, n_emitter=ne, n_photon=np_)
        ea = solver.get_emission_assignment(np_, ne)
        ma = solver.get_measurement_assignment(np_, ne)
        ctx.log("assignment", [int(x) for x in ea], [int(x) for x in ma])
        circ = solver.initialization(ea, ma)
        ctx.probe("init_from_initialization")
        return circ, solver
    n, edges = case["n"], [tuple(e) for e in case["edges"]]
    tg = QuantumState(graphs.to_nx((n, edges)), rep_type="g")
    if case["src"] == "trs":
        trs = TimeReversedSolver(target=tg, metric=Infidelity(tg), compiler=comp)
        trs.solve()
        circ = trs.result[1]
        for _ in range(case.get("trs_solves", 1) - 1):
            if photon_structure(circ):
                return circ, None  # judged by the caller
            trs.solve()
            circ = trs.result[1]
            ctx.probe("deterministic_solver_object_reused")
        ctx.probe("init_from_time_reversed")
    else:
        from graphiq.solvers.alternate_target_solver import AlternateTargetSolver
        alt = AlternateTargetSolver(target=tg, metric=Infidelity(tg), compiler=comp, seed=case["lseed"] % 1000,
                                    noise_model_mapping="depolarizing" if case.get("alt_noise") else None)
        if case.get("alt_noise"):
            ctx.probe("alternate_source_with_noise_model")
        alt.solver_setting.n_iso_graphs = 2
        alt.solver_setting.n_lc_graphs = 2
        alt.solver_setting.lc_method = "lc_with_iso"
        res = alt.solve()
        entries = list(res)
        circs = []
        for e in entries:
            c = e[0] if isinstance(e, (tuple, list)) else e
            circs.append(c)
        if not circs:
            raise core.HarnessError("alternate target solver returned nothing")
        for c in circs:
            bad = photon_structure(c)
            if bad:
                return c, None
        circ = circs[case["lseed"] % len(circs)].copy()
        ctx.probe("init_from_alternate")
    tg2 = QuantumState(graphs.to_nx((n, edges)), rep_type="g")
    solver = HybridEvolutionarySolver(target=tg2, metric=Infidelity(tg2), compiler=comp)
    solver.n_emitter = circ.n_emitters
    solver.n_photon = circ.n_photons
    return circ, solver


def run_case(case):
    ctx = Ctx(ID)
    lib = random.Random(case["lseed"])
    bug = random.Random(case["lseed"] + 7)
    warnings.filterwarnings("ignore")
    rng = OwnedRNG(lib, outcomes=OutcomeScript([], fallback=random.Random(case["lseed"] + 3)), ctx=ctx,
                   buggify=case["bug_rate"] > 0, bug_rate={"rng_extreme": case["bug_rate"]}, bug_rng=bug)
    with rng:
        try:
            circ, solver = make_initial(ctx, case, lib)
        except core.HarnessError:
            raise
        except Exception as e:
            if case["src"] == "alt":
                # the alternate-target solver's own crashes are C10's subject
                ctx.probe("alternate_solver_raised")
                return ctx.result(False, sample={"skipped": f"{type(e).__name__}: {e}"[:200]})
            ctx.violate("unexpected_exception", -1, f"building the initial circuit ({case['src']}): {type(e).__name__}: {e}", {"stage": "initial", "src": case["src"], "exc": type(e).__name__})
            return ctx.result(False, sample=case)
        bad = photon_structure(circ)
        if bad:
            ctx.violate(bad[0], -1, f"solver-made initial circuit ({case['src']}): {bad[1]}", {"stage": "initial", "src": case["src"]})
            return ctx.result(False, sample=case)
        fixed0 = fixed_nodes(circ)
        ctx.log("initial", case["src"], circ.n_emitters, circ.n_photons, len(circ.dag.nodes), sorted(map(str, fixed0)))
        did = {"ins2": 0, "rm": 0}
        pop = [circ]
        for step, (mv, arg) in enumerate(case["history"]):
            ctx.steps += 1
            if mv == "select":
                # tournament selection as the solvers do it between generations: the population becomes copies of
                # winners (the same individual may win several slots); later moves act on one member each
                try:
                    solver.setting.n_pop = 2 + arg % 2
                    pop = [c for (_, c) in solver.tournament_selection([(float(i), c) for i, c in enumerate(pop)], k=1 + arg % 3)]
                except core.HarnessError:
                    raise
                except Exception as e:
                    ctx.violate("unexpected_exception", step, f"tournament_selection: {type(e).__name__}: {e}", {"move": mv, "exc": type(e).__name__})
                    break
                ctx.probe("selection_done")
                ctx.log(step, mv, arg, len(pop))
                continue
            circ = pop[arg % len(pop)]
            if mv == "rejected_replace":
                # fault: a replacement on other registers than the node's is asked for and refused; the same circuit is
                # then mutated further (an accepted impossible replacement is not this property's subject: the run ends)
                nodes = sorted(n for n in circ.dag.nodes if isinstance(n, int))
                if not nodes:
                    continue
                node = nodes[arg % len(nodes)]
                old_op = circ.dag.nodes[node]["op"]
                other_e = (old_op.q_registers[0] + 1) % max(2, circ.n_emitters + 1)
                wrong = ops.Hadamard(register=other_e, reg_type="e") if len(old_op.q_registers) == 1 and old_op.q_registers_type[0] == "e" \
                    else ops.CNOT(control=0, control_type="e", target=circ.n_emitters, target_type="e")
                ctx.fault("rejected_edit")
                try:
                    circ.replace_op(node, wrong)
                except core.HarnessError:
                    raise
                except Exception as e:
                    ctx.probe("impossible_replace_refused")
                    ctx.log(step, mv, arg, node, type(e).__name__)
                else:
                    ctx.probe("impossible_replace_accepted")
                    ctx.log(step, mv, arg, node, "accepted")
                    break
            n_before = circ.dag.number_of_nodes()
            two_before = sum(1 for n in circ.dag.nodes if isinstance(circ.dag.nodes[n]["op"], (ops.ControlledPairOperationBase, ops.ClassicalControlledPairOperationBase)))
            nd0 = len(rng.draws)
            try:
                if mv == "rejected_replace":
                    pass  # the refused call above was the whole step; the invariants below judge what it left behind
                elif mv == "peek":
                    # the caller (or a solver that then decides not to insert) only looks: which edges are incompatible
                    # with a given one, which CNOT / measurement positions exist
                    es = sorted(circ.dag.edges(keys=True), key=str)
                    if es:
                        circ.find_incompatible_edges(es[arg % len(es)])
                    if arg % 3 == 0:
                        solver._select_possible_cnot_position(circ)
                    elif arg % 3 == 1:
                        solver._select_possible_measurement_position(circ)
                    ctx.probe("positions_looked_at_without_insertion")
                elif mv == "remove_op_node":
                    nodes = sorted(n for n in circ.dag.nodes if isinstance(n, int))
                    if not nodes:
                        continue
                    node = nodes[arg % len(nodes)]
                    was_fixed = node in fixed0 or "Fixed" in circ.dag.nodes[node]["op"].labels
                    solver.remove_op(circ, node)
                    if was_fixed and node in circ.dag.nodes:
                        ctx.probe("fixed_removal_refused")
                else:
                    getattr(solver, mv)(circ)
            except core.HarnessError:
                raise
            except Exception as e:
                ctx.violate("unexpected_exception", step, f"{mv}: {type(e).__name__}: {e}", {"move": mv, "exc": type(e).__name__})
                break
            n_after = circ.dag.number_of_nodes()
            two_after = sum(1 for n in circ.dag.nodes if isinstance(circ.dag.nodes[n]["op"], (ops.ControlledPairOperationBase, ops.ClassicalControlledPairOperationBase)))
            if two_after > two_before:
                did["ins2"] += 1
                ctx.probe("two_qubit_inserted")
                if mv == "add_measurement_cnot_and_reset":
                    ctx.probe("measurement_inserted")
            elif mv in ("add_emitter_cnot", "add_measurement_cnot_and_reset"):
                ctx.probe("no_position_for_two_qubit")
            if n_after < n_before:
                did["rm"] += 1
                ctx.probe("removal_happened")
            if mv in ("add_emitter_one_qubit_op", "add_photon_one_qubit_op") and n_after == n_before:
                ctx.probe("fallback_replace_used")
            ctx.log(step, mv, arg, n_after, [d[2] if not isinstance(d[2], list) else d[2][-1] for d in rng.draws[nd0:]])
            stop = False
            for member in pop:  # every member of the population, not only the one that was moved (aliasing between copies)
                bad = photon_structure(member)
                if bad:
                    ctx.violate(bad[0], step, f"after {mv}: {bad[1]}", {"move": mv})
                    stop = True
                    break
                now = fixed_nodes(member)
                lost = [(n, s) for n, s in fixed0.items() if now.get(n) != s]
                if lost:
                    ctx.violate("I5_fixed_operation_lost", step, f"after {mv}: emission / measure-and-reset operations of the initial circuit changed or vanished: {lost[:3]}", {"move": mv})
                    stop = True
                    break
            if stop:
                break
        circ = pop[0]
        nontrivial = circ.n_emitters >= 2 and did["ins2"] >= 1 and did["rm"] >= 1
    return ctx.result(nontrivial, sample={k: case[k] for k in case if k != "history"} | {"history": case["history"][:10]})

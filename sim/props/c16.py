"""
C16 - relabelling, isomorph search and LC-orbit walks stay in the equivalence class (RNG-driven clauses).

System under simulation: iso_finder's adaptive sampling loop (driven by numpy Generators) and the LC-orbit explorers
(lc_orbit_finder with its global-RNG random walk, rgs_orbit_finder, linear_partial_orbit, depth_first_orbit), with every
Generator / global draw owned by the simulator.  Faults: rng_duplicate (the Generator repeats earlier permutations or
returns the identity, which drives the 'count == thresh' and 'relative increase' exits of the search loop) and
rng_extreme (extreme-but-legal answers to the random walk's draws).  relabel / get_relabel_map are pure and only
exercised as by-products.
"""
import math
import random
import warnings

import networkx as nx
import numpy as np

import graphiq.utils.relabel_module as rm

from sim import core, graphs
from sim.core import Ctx, stream
from sim.ref import graph as gref
from sim.seam import OwnedRNG

ID = "C16"
RUNS = {"quick": 6000, "thorough": 200000}
BUDGET = {"quick": 80, "thorough": 1500}
CHUNK = {"quick": 50, "thorough": 200}
RUN_TIMEOUT_S = 300
CALL_TIMEOUT_S = 60
RULE = (
    "one seeded graph per run (n = 2..9 for iso_finder, n <= 6 for orbit explorers; ER / path / star / cycle / complete / "
    "tree / repeater / unions) and 3-7 calls over {iso_finder(n_iso, rel_inc_thresh, allow_exhaustive, thresh, label_map, "
    "seed), lc_orbit_finder(comp_depth<=3 or orbit_size_thresh<=10, with_iso, rand, rep_allowed), rgs_orbit_finder, "
    "linear_partial_orbit, depth_first_orbit, get_lc_graph_by_max_edge / _max_neighbor_edge (preprocessing), relabel, "
    "get_relabel_map}, on one of the run's two input graphs; Generator and global draws owned, rng_duplicate / "
    "rng_extreme injected at a per-run rate. Distinct = distinct event-log digest; non-trivial = iso_finder's adaptive loop "
    "iterated at least once, or a random walk of >= 2 complementations was taken."
)
PROBES = ["iso_adaptive_loop_iterated", "iso_fewer_than_requested", "iso_nonexhaustive_branch_n_ge_8", "iso_with_label_map",
          "orbit_random_walk", "orbit_threshold_hit", "orbit_closed_before_threshold", "rgs_done", "linear_done", "dfs_done",
          "iso_request_exceeds_nfact", "preprocessing_explorer_done"]
REAL = ["graphiq.utils.relabel_module (iso_finder, _label_finder, _add_labels, automorph_check, relabel, get_relabel_map, "
        "lc_orbit_finder, rgs_orbit_finder, linear_partial_orbit, depth_first_orbit, check_isomorphism)",
        "graphiq.backends.lc_equivalence_check.local_comp_graph", "graphiq.utils.preprocessing (get_lc_graph_by_max_edge, get_lc_graph_by_max_neighbor_edge, graph metrics)"]
STUB = ["numpy.random.default_rng -> simulator-seeded Generator behind a proxy (duplicate answers injected); numpy.random.randint / shuffle owned"]
ASSUMPTIONS = [
    "networkx VF2 isomorphism test is trusted",
    "LC-orbit membership by an independent breadth-first enumeration on adjacency bitmasks (n <= 7)",
    "sort_emit stays False (with it the function documents another order than 'input first')",
    "explorers are always called with a size or depth bound (an unbounded lc_orbit_finder(rep_allowed=True) does not terminate; termination is not claimed by the property)",
]


def gen_case(run_seed, tier):
    sz = stream(run_seed, "sizes")
    wl = stream(run_seed, "workload")
    big = sz.random() < 0.12
    if big:
        # large, highly symmetric graphs make iso_finder enumerate up to n! labellings (correct but minutes long):
        # at n >= 8 only low-symmetry families are drawn and few isomorphs are requested
        while True:
            g = graphs.relabel(sz, graphs.er(sz, sz.randint(8, 9), sz.choice([0.35, 0.5])) if sz.random() < 0.7 else graphs.tree(sz, sz.randint(8, 9)))
            fam = "er/tree"
            deg = sorted(sum(1 for e in g[1] if v in e) for v in range(g[0]))
            if not graphs.isolated(g) and len(set(deg)) >= 3:
                break
    else:
        g, fam = graphs.random_graph(sz, 2, 6 if tier != "thorough" else 7, connected=sz.random() < 0.7, allow_isolated=sz.random() < 0.2)
    if not big and sz.random() < 0.14:
        g, fam = graphs.path(sz.choice([3, 4, 4, 5, 6, 6, 8])), "canonical path"  # the labelling linear_partial_orbit is written for
    n = g[0]
    calls = []
    edits = sz.random() < 0.35
    for _ in range(sz.randint(3, 7)):
        kind = wl.choices(["iso", "orbit", "rgs", "linear", "dfs", "relabel", "map", "maxedge", "maxnbr"], weights=[6, 6, 1, 1.5, 2.5, 1, 2, 1.2, 1.2])[0]
        if edits and n <= 6 and wl.random() < 0.2:
            kind = "edit"  # the caller edits its graph object between two calls (the library must not remember the old one)
        if fam == "canonical path" and wl.random() < 0.5:
            kind = "linear"  # the scripted walk is called several times in one run
        if n > 6 and kind in ("orbit", "dfs", "rgs", "maxedge", "maxnbr") or n > 8 and kind == "linear":
            kind = "iso"
        if kind == "iso":
            nmax = math.factorial(n)
            n_iso = (wl.choice([1, 2, 3, 4, 6, 10]) if n < 8 else wl.choice([1, 2, 3, 4])) if n >= 4 else wl.randint(1, max(1, nmax))
            calls.append(["iso", min(n_iso, nmax) if wl.random() < 0.97 else nmax + 1, wl.choice([0.05, 0.2, 0.5, 0.9]), wl.random() < 0.6 and n <= 8,
                          wl.choice([None, None, 3, 10, 40]), wl.random() < 0.4, wl.choice([None, wl.randrange(1000)]), wl.random() < 0.5,
                          wl.random() < 0.2 and n <= 7])
        elif kind == "orbit":
            bound = wl.choice(["depth", "size", "both"])
            depth = wl.randint(1, 3) if bound != "size" else None
            if bound == "both" and wl.random() < 0.5:
                depth = wl.randint(4, 7)  # long walks are safe when a size bound is given as well
            calls.append(["orbit", depth, wl.randint(1, 10) if bound != "depth" else None,
                          wl.random() < 0.5, wl.random() < 0.4, wl.random() < 0.25])
        elif kind in ("maxedge", "maxnbr"):
            calls.append([kind, wl.randint(1, 4), wl.randrange(4), wl.randint(1, 3), wl.random() < 0.5])
        else:
            calls.append([kind, wl.randrange(10**6)])
    # a second graph of the same size class: several calls of one run then act on different inputs, so that state kept
    # by the library between calls (caches, mutable defaults) shows up inside one repeatable run
    if n <= 6:
        g2, _ = graphs.random_graph(sz, max(2, n - 1), min(6, n + 1), connected=sz.random() < 0.7, allow_isolated=False)
    else:
        g2 = g
    for c in calls:
        c.append(wl.randrange(2))
    return {"n": n, "edges": [list(e) for e in g[1]], "n2": g2[0], "edges2": [list(e) for e in g2[1]], "family": fam, "history": calls,
            "lseed": sz.randrange(10**9), "bug_rate": sz.choice([0.0, 0.0, 0.1, 0.3, 0.6]), "shuffle_edges": sz.random() < 0.4}


def simplify(case):
    if case["bug_rate"]:
        c = dict(case)
        c["bug_rate"] = 0.0
        yield c
    if case.get("shuffle_edges"):
        c = dict(case)
        c["shuffle_edges"] = False
        yield c
    for i in range(len(case["edges"])):
        c = dict(case)
        c["edges"] = case["edges"][:i] + case["edges"][i + 1:]
        yield c


def as_adj(x):
    m = np.asarray(x)
    if m.ndim != 2 or m.shape[0] != m.shape[1]:
        return None
    mm = np.rint(m).astype(int)
    if not np.allclose(m, mm):
        return None
    return mm


def run_case(case):
    warnings.filterwarnings("ignore")
    ctx = Ctx(ID)
    inputs = [(case["n"], [tuple(e) for e in case["edges"]])]
    if case.get("edges2") is not None:
        inputs.append((case["n2"], [tuple(e) for e in case["edges2"]]))
    prepared = []
    for (nn, ee) in inputs:
        a0 = gref.adj_from_edges(nn, ee)
        eos = case["lseed"] + 17 if case.get("shuffle_edges") else None
        prepared.append((nn, ee, graphs.to_nx((nn, ee), edge_order_seed=eos), a0, gref.lc_orbit(a0) if nn <= 7 else None))
    if case.get("shuffle_edges"):
        ctx.probe("input_edges_inserted_in_shuffled_order")
    lib = random.Random(case["lseed"])
    bug = random.Random(case["lseed"] + 5)
    nontrivial = False
    seam = OwnedRNG(lib, ctx=ctx, buggify=case["bug_rate"] > 0, bug_rate={"rng_duplicate": case["bug_rate"], "rng_extreme": case["bug_rate"]}, bug_rng=bug)
    with seam:
        for step, call in enumerate(case["history"]):
            k = call[0]
            which = call[-1] % len(prepared)  # last element of every call: which of the run's input graphs
            call = call[:-1]
            n, edges, G, A0, orbit = prepared[which]
            ctx.steps += 1
            nd0 = len(seam.draws)
            try:
                with core.alarm(CALL_TIMEOUT_S, f"C16 {k}"):
                    if k == "edit":
                        # toggle one edge of the caller's graph object in place; the references follow
                        if n < 3:
                            continue
                        r = random.Random(call[1])
                        u, v = r.sample(range(n), 2)
                        if G.has_edge(u, v):
                            G.remove_edge(u, v)
                        else:
                            G.add_edge(u, v)
                        edges = sorted((min(a, b), max(a, b)) for a, b in G.edges)
                        A0 = gref.adj_from_edges(n, edges)
                        orbit = gref.lc_orbit(A0) if n <= 7 else None
                        prepared[which] = (n, edges, G, A0, orbit)
                        ctx.probe("input_graph_object_edited_between_calls")
                        ctx.log(step, "edit", u, v)
                        continue
                    if k == "iso":
                        _, n_iso, thr, exh, thresh, label_map, seed, as_float = call[:8]
                        sort_emit = bool(call[8]) if len(call) > 8 else False
                        if n_iso > math.factorial(n):
                            ctx.probe("iso_request_exceeds_nfact")
                            try:
                                rm.iso_finder(nx.to_numpy_array(G), n_iso, seed=seed)
                            except AssertionError:
                                pass
                            continue
                        adj = nx.to_numpy_array(G)
                        if not as_float:
                            adj = adj.astype(int)
                        res = rm.iso_finder(adj, n_iso, rel_inc_thresh=thr, allow_exhaustive=exh, thresh=thresh, label_map=label_map, seed=seed, sort_emit=sort_emit)
                        if sort_emit:
                            ctx.probe("iso_sort_emit")
                        maps = None
                        if isinstance(res, tuple):
                            res, maps = res
                            ctx.probe("iso_with_label_map")
                        mats = [as_adj(x) for x in res]
                        sig = {"call": "iso_finder"}
                        ngen = sum(1 for d in seam.draws[nd0:] if d[1] == "default_rng")
                        if ngen >= 2:
                            ctx.probe("iso_adaptive_loop_iterated")
                            nontrivial = True
                        if n >= 8:
                            ctx.probe("iso_nonexhaustive_branch_n_ge_8")
                        if any(m is None or m.shape != (n, n) for m in mats):
                            ctx.violate("K_iso_malformed", step, f"iso_finder returned something that is not a list of {n}x{n} 0/1 matrices", sig)
                            break
                        if len(mats) == 0:
                            ctx.violate("K_iso_input_not_first", step, "iso_finder returned no matrix at all", sig)
                            break
                        if len(mats) > n_iso:
                            ctx.violate("K_iso_too_many", step, f"{len(mats)} matrices returned, {n_iso} requested", sig)
                            break
                        if len(mats) < n_iso:
                            ctx.probe("iso_fewer_than_requested")
                        # with sort_emit the function documents another order (fewest emitters first): "input first" is
                        # then not promised, the other clauses are
                        if not sort_emit and not np.array_equal(mats[0], np.rint(nx.to_numpy_array(G)).astype(int)):
                            ctx.violate("K_iso_input_not_first", step, "first returned matrix is not the input adjacency matrix", sig)
                            break
                        keys = [gref.adj_from_matrix(m.tolist()) for m in mats]
                        if len(set(keys)) != len(keys) or len({m.tobytes() for m in mats}) != len(mats):
                            ctx.violate("K_iso_duplicates", step, f"returned adjacency matrices are not pairwise distinct ({len(mats)} returned, {len(set(keys))} different)", sig)
                            break
                        bad = None
                        for i, m in enumerate(mats):
                            if not gref.is_simple_symmetric(m.tolist()) or not nx.is_isomorphic(G, nx.from_numpy_array(m)):
                                bad = i
                                break
                        if bad is not None:
                            ctx.violate("K_iso_not_isomorphic", step, f"returned matrix #{bad} is not isomorphic to the input: {mats[bad].tolist()}", sig)
                            break
                        if maps is not None:
                            if len(maps) < len(mats):
                                ctx.violate("K_iso_map_wrong", step, f"{len(maps)} maps for {len(mats)} matrices", sig)
                                break
                            if len(maps) > len(mats):
                                ctx.probe("iso_more_maps_than_matrices")  # maps are computed before truncation to n_iso; not judged
                            for mp, m in zip(maps, mats):
                                mp = {a: b for a, b in mp.items() if a != -1}
                                H = nx.from_numpy_array(m)
                                if sorted(mp) != list(range(n)) or sorted(mp.values()) != list(range(n)) or any(H.has_edge(mp[u], mp[v]) != G.has_edge(u, v) for u in range(n) for v in range(u + 1, n)):
                                    ctx.violate("K_iso_map_wrong", step, f"reported map {mp} is not an isomorphism from the input onto {m.tolist()}", sig)
                                    break
                            if ctx.violations:
                                break
                        ctx.log(step, "iso", n_iso, len(mats), ngen)
                    elif k == "orbit":
                        _, depth, size, with_iso, rand, rep = call
                        graphs_out = rm.lc_orbit_finder(G, comp_depth=depth, orbit_size_thresh=size, with_iso=with_iso, rand=rand, rep_allowed=rep)
                        sig = {"call": "lc_orbit_finder", "rand": rand, "rep_allowed": rep, "with_iso": with_iso}
                        if rand:
                            ctx.probe("orbit_random_walk")
                            walk = sum(1 for d in seam.draws[nd0:] if d[0].endswith(":lc_orbit_finder") and d[1].startswith("randint"))
                            if walk >= 2:
                                nontrivial = True
                        if size is not None and len(graphs_out) >= size:
                            ctx.probe("orbit_threshold_hit")
                        else:
                            ctx.probe("orbit_closed_before_threshold")
                        if size is not None and len(graphs_out) > size:
                            ctx.violate("L_orbit_too_many", step, f"{len(graphs_out)} graphs returned for orbit_size_thresh={size}", sig)
                            break
                        if not judge_orbit(ctx, step, graphs_out, n, orbit, sig, distinct=None if rep else ("equal" if with_iso else "iso")):
                            break
                        ctx.log(step, "orbit", depth, size, with_iso, rand, rep, len(graphs_out))
                    elif k in ("maxedge", "maxnbr"):
                        import graphiq.utils.preprocessing as pre

                        if not nx.is_connected(G) or n < 2:
                            ctx.log(step, k, "skipped")
                            continue
                        _, n_graphs, mi, n_trial, as_matrix = call
                        f = pre.get_lc_graph_by_max_edge if k == "maxedge" else pre.get_lc_graph_by_max_neighbor_edge
                        arg = nx.to_numpy_array(G) if as_matrix else G
                        out = f(arg, n_graphs, pre.graph_metric_lists[mi], n_trial=n_trial)
                        gl = [x[1] for x in out]
                        ctx.probe("preprocessing_explorer_done")
                        if len(gl) > n_graphs:
                            ctx.probe("preprocessing_more_than_requested")
                        if not judge_orbit(ctx, step, gl, n, orbit, {"call": k}, distinct=None):
                            break
                        ctx.log(step, k, n_graphs, mi, n_trial, len(gl))
                    elif k in ("rgs", "linear", "dfs"):
                        if k == "rgs":
                            m = n // 2
                            if n < 4 or n % 2 or sorted(edges) != sorted(graphs.rgs(m)[1]) and not nx.is_isomorphic(G, graphs.to_nx(graphs.rgs(m))):
                                ctx.log(step, k, "skipped")
                                continue
                            out = rm.rgs_orbit_finder(G)
                            ctx.probe("rgs_done")
                        elif k == "linear":
                            degs = [d for _, d in G.degree()]
                            if not (n >= 2 and G.size() == n - 1 and max(degs) <= 2 and nx.is_connected(G)) or n < 3:
                                ctx.log(step, k, "skipped")
                                continue
                            out = rm.linear_partial_orbit(G)
                            ctx.probe("linear_done")
                        else:
                            if n > 5:
                                ctx.log(step, k, "skipped")
                                continue
                            out = rm.depth_first_orbit(G)
                            ctx.probe("dfs_done")
                        # rgs and linear document "a list of distinct graphs" (linear only for the canonical labelling
                        # 0-1-..-n-1 its scripted sequence is written for); depth-first builds its list from walks over
                        # pairwise non-isomorphic graphs. Otherwise membership only.
                        canonical_path = k == "linear" and sorted(edges) == [(i, i + 1) for i in range(n - 1)]
                        if not judge_orbit(ctx, step, out, n, orbit, {"call": k}, distinct="equal" if (k in ("rgs", "dfs") or canonical_path) else None):
                            break
                        ctx.log(step, k, len(out))
                    elif k == "relabel":
                        r = random.Random(call[1])
                        perm = list(range(n))
                        r.shuffle(perm)
                        out = as_adj(rm.relabel(nx.to_numpy_array(G), np.array(perm)))
                        want = gref.relabel(A0, perm)
                        if out is None or gref.adj_from_matrix(out.tolist()) != want or not gref.is_simple_symmetric(out.tolist()):
                            ctx.violate("K_relabel_wrong", step, f"relabel by {perm} gives {None if out is None else out.tolist()}", {"call": "relabel"})
                            break
                        ctx.log(step, "relabel", perm)
                    elif k == "map":
                        r = random.Random(call[1])
                        perm = list(range(n))
                        r.shuffle(perm)
                        H0 = nx.from_numpy_array(np.array([[1 if gref.relabel(A0, perm)[i] >> j & 1 else 0 for j in range(n)] for i in range(n)]))
                        # graphs whose node insertion order is not the sorted one (same labelled graphs)
                        G1, H = nx.Graph(), nx.Graph()
                        o1, o2 = list(range(n)), list(range(n))
                        if r.random() < 0.6:
                            r.shuffle(o1)
                            r.shuffle(o2)
                        G1.add_nodes_from(o1)
                        G1.add_edges_from(G.edges)
                        H.add_nodes_from(o2)
                        H.add_edges_from(H0.edges)
                        if r.random() < 0.3:
                            # argument form: adjacency matrices instead of graphs (positions are then the labels)
                            G1, H = nx.to_numpy_array(G), nx.to_numpy_array(H0)
                            mp = rm.get_relabel_map(G1, H)
                            H = H0
                        else:
                            mp = rm.get_relabel_map(G1, H)
                        mp = {a: b for a, b in mp.items() if a != -1}
                        if sorted(mp) != list(range(n)) or sorted(mp.values()) != list(range(n)) or any(H.has_edge(mp[u], mp[v]) != G.has_edge(u, v) for u in range(n) for v in range(u + 1, n)):
                            ctx.violate("K_iso_map_wrong", step, f"get_relabel_map returned {mp}, not an isomorphism", {"call": "get_relabel_map"})
                            break
                        ctx.log(step, "map", perm)
            except core.HarnessError:
                raise
            except Exception as e:
                ctx.violate("unexpected_exception", step, f"{k}{call[1:]} on n={n} edges={edges}: {type(e).__name__}: {e}", {"call": k, "exc": type(e).__name__})
                break
    return ctx.result(nontrivial, sample={"n": n, "edges": edges, "history": case["history"], "bug_rate": case["bug_rate"]})


def judge_orbit(ctx, step, graphs_out, n, orbit, sig, distinct):
    keys = []
    for i, g in enumerate(graphs_out):
        if sorted(g.nodes) != list(range(n)):
            ctx.violate("L_orbit_vertex_set", step, f"returned graph #{i} has vertices {sorted(g.nodes)}", sig)
            return False
        key = gref.adj_from_edges(n, list(g.edges))
        keys.append(key)
        if orbit is not None and key not in orbit:
            ctx.violate("L_not_in_orbit", step, f"returned graph #{i} with edges {sorted(g.edges)} is not in the local-complementation orbit of the input", sig)
            return False
    if distinct == "equal" and len(set(keys)) != len(keys):
        ctx.violate("L_orbit_duplicates", step, "explorer asked for distinct graphs returned the same labelled graph twice", sig)
        return False
    if distinct == "iso":
        for i in range(len(graphs_out)):
            for j in range(i + 1, len(graphs_out)):
                if nx.is_isomorphic(graphs_out[i], graphs_out[j]):
                    ctx.violate("L_orbit_duplicates", step, f"explorer asked for non-isomorphic graphs returned isomorphic graphs #{i} and #{j}", sig)
                    return False
    return True

"""
C01 - both simulation backends compute the state the circuit defines.

System under simulation: CircuitDAG -> CompilerBase.compile -> {StabilizerCompiler, DensityMatrixCompiler}, with the
measurement-outcome RNG behind the simulator's outcome scheduler.  For each seeded program the scheduler walks the
whole tree of outcome branches (every leaf when it has <= 16 leaves, seeded samples otherwise) in "probabilistic"
mode, plus forced-0 and forced-1, on both backends; the textbook state-vector reference follows the operations in
the order the compiler actually applied them and the outcomes the scheduler actually handed out.
"""
import random

import numpy as np

from graphiq.backends.density_matrix.compiler import DensityMatrixCompiler
from graphiq.backends.stabilizer.clifford_tableau import CliffordTableau
from graphiq.backends.stabilizer.compiler import StabilizerCompiler
import graphiq.backends.stabilizer.functions.transformation as tr
from graphiq.state import QuantumState

from sim import core, gq
from sim.core import Ctx, stream
from sim.props.c12 import Model
from sim.ref import sv
from sim.ref.prog import run_reference, qindex
from sim.seam import OutcomeScript, OwnedRNG

ID = "C01"
RUNS = {"quick": 12000, "thorough": 150000}
BUDGET = {"quick": 90, "thorough": 1500}
CHUNK = {"quick": 40, "thorough": 200}
RULE = (
    "program = seeded circuit of 1-40 operations over {I,H,P,Pdag,X,Y,Z, wrappers of 1-4 gates, CNOT, CZ, "
    "classical-CNOT, classical-CZ, measure-CNOT-reset, Z-measure} on 1-3 emitters, 0-3 photons (<= 6 qubits), 1-3 "
    "classical bits, built with add (and insert_at for purely quantum ops; ~30% of programs are a low-Hadamard entangling prefix, half of them followed by a perturbation and most of the inverse prefix, ending in a Z measurement of every register, so that late outcomes are deterministic through products of several tableau rows), optionally from a random stabilizer initial "
    "state; each program is compiled on both backends under forced-0, forced-1 and every leaf of the outcome tree in "
    "probabilistic mode (<=16 leaves, else 16 seeded leaves). evaluations counts programs. Distinct = distinct event-log "
    "digest; non-trivial = the program has >=1 two-qubit gate and >=1 measurement followed by a later operation on the "
    "measured qubit."
)
PROBES = ["gate_after_reset", "random_measurement_on_photon", "control_on_photon", "wrapper_len_ge3",
          "forced_value_impossible", "full_branch_sweep", "sampled_branches", "initial_state_used",
          "inserted_op", "invalid_setting_refused", "initial_state_object_reused", "measurement_prob_near_deterministic", "compiler_reused_after_other_circuit", "edited_after_compile"]
REAL = ["graphiq.backends.compiler_base.CompilerBase.compile", "StabilizerCompiler.compile_one_gate",
        "DensityMatrixCompiler.compile_one_gate", "graphiq.backends.stabilizer (tableau functions)",
        "graphiq.backends.density_matrix (state, functions)", "graphiq.circuit.circuit_dag.CircuitDAG", "graphiq.circuit.ops"]
STUB = ["numpy.random.randint (clifford.py) and numpy.random.choice (density_matrix/state.py) answered by the outcome scheduler"]
ASSUMPTIONS = [
    "reference = independent numpy state-vector simulator (sim/ref/sv.py, prog.py), tolerance 1e-8",
    "classical-bit-writing operations are placed with add only (insert_at does not thread classical wires)",
    "compile_one_gate is observed through a subclass override (existing seam, no repo hook)",
]
TOL = 1e-8


# ------------------------------------------------------------------------------------------------ generation
def gen_program(wl, ne, np_, nc, length, allow_ins, kinds_w=None, hbias=0.0, emitter_control_only=False):
    regs = [("e", i) for i in range(ne)] + [("p", i) for i in range(np_)]
    kinds = ["g1", "w", "g2", "cc", "m"]
    w = kinds_w or [40, 12, 25, 15, 8]
    prog = []
    for _ in range(length):
        k = wl.choices(kinds, weights=w)[0]
        if k in ("g2", "cc") and len(regs) < 2:
            k = "g1"
        if k == "g1":
            t, r = wl.choice(regs)
            spec = ["g1", "H" if wl.random() < hbias else wl.choice(gq.NAMES1), t, r]
        elif k == "w":
            t, r = wl.choice(regs)
            spec = ["w", [wl.choice(gq.NAMES1) for _ in range(wl.randint(1, 4))], t, r]
        elif k == "g2":
            a, b = wl.sample(regs, 2)
            if emitter_control_only and a[0] != "e":
                a, b = (b, a) if b[0] == "e" else (("e", 0), a)
            spec = ["g2", wl.choice(["CNOT", "CZ"]), a[0], a[1], b[0], b[1]]
        elif k == "cc":
            a, b = wl.sample(regs, 2)
            if emitter_control_only and a[0] != "e":
                a, b = (b, a) if b[0] == "e" else (("e", 0), a)
            spec = ["cc", wl.choice(["CCNOT", "CCZ", "MCR"]), a[0], a[1], b[0], b[1], wl.randrange(nc)]
        else:
            t, r = wl.choice(regs)
            spec = ["m", t, r, wl.randrange(nc)]
        if allow_ins and spec[0] in ("g1", "w", "g2") and wl.random() < 0.35:
            prog.append(["ins", spec, wl.randrange(1000), wl.randrange(1000)])
        else:
            prog.append(["add", spec])
    return prog


def gen_case(run_seed, tier):
    sz = stream(run_seed, "sizes")
    wl = stream(run_seed, "workload")
    ne = sz.randint(1, 3)
    np_ = sz.randint(0, min(3, 6 - ne)) if tier != "thorough" else sz.randint(0, min(4, 7 - ne))
    nc = sz.randint(1, 3)
    length = sz.randint(1, 40 if tier == "thorough" else 24)
    allow_ins = sz.random() < 0.5
    mix = sz.choice([None, None, [30, 10, 30, 25, 5], [20, 20, 20, 20, 20], [50, 0, 30, 20, 0], [25, 5, 25, 25, 20], [30, 5, 20, 35, 10]])
    hbias = sz.choice([0.0, 0.3, 0.5])
    prog = gen_program(wl, ne, np_, nc, length, allow_ins, mix, hbias)
    if sz.random() < 0.3 and ne + np_ >= 2:
        # "measure-everything tail": an entangling prefix with few Hadamards (low X-rank: many Z-type correlations, Y-type
        # generators from P) followed by a Z measurement of every register in a seeded order, so that the later measurements
        # are deterministic *through products of several stabilizer rows* (sign from the i-phase bookkeeping of row_sum)
        pre = gen_program(wl, ne, np_, nc, sz.randint(4, 16), False, [45, 5, 46, 2, 2], 0.0)
        for st in pre:
            sp = st[1]
            if sp[0] == "g1" and sp[1] == "H" and wl.random() < 0.6:
                sp[1] = wl.choice(["P", "Pd"])
        regs_all = [("e", i) for i in range(ne)] + [("p", i) for i in range(np_)]
        wl.shuffle(regs_all)
        h_at = wl.sample(regs_all, wl.randint(1, max(1, len(regs_all) // 2)))
        if wl.random() < 0.5:
            # compute / perturb / partially uncompute: U, a few one-qubit Paulis and phase gates, then most of U^-1 in reverse;
            # the state ends close to a product state whose tableau rows are scrambled, so Z outcomes are deterministic only
            # through products of several rows with non-trivial i-phases
            inv1 = {"P": "Pd", "Pd": "P"}
            body = [st for st in pre if st[1][0] in ("g1", "g2")]
            mid = []
            for _ in range(wl.randint(1, 3)):
                t, r = wl.choice(regs_all)
                mid.append(["add", ["g1", wl.choice(["P", "Pd", "X", "Y", "Z", "P"]), t, r]])
            back = []
            for st in reversed(body):
                if wl.random() < 0.12:
                    continue
                sp = list(st[1])
                if sp[0] == "g1":
                    sp[1] = inv1.get(sp[1], sp[1])
                back.append(["add", sp])
            pre = body + mid + back
        prog = [["add", ["g1", "H", t, r]] for t, r in h_at] + pre + [["add", ["m", t, r, wl.randrange(nc)]] for t, r in regs_all]
        allow_ins = False
    init = None
    if sz.random() < 0.25:
        regs = ne + np_
        init = []
        for _ in range(sz.randint(1, 8)):
            if regs >= 2 and wl.random() < 0.4:
                a, b = wl.sample(range(regs), 2)
                init.append([wl.choice(["CNOT", "CZ"]), a, b])
            else:
                init.append([wl.choice(["H", "P", "X", "Y", "Z", "Pd"]), wl.randrange(regs)])
    case = {"ne": ne, "np": np_, "nc": nc, "history": prog, "init": init, "bseed": sz.randrange(10**9)}
    if sz.random() < 0.3:
        # the circuit object is edited after it has been compiled (replace_op on a one-qubit gate) and compiled again
        case["post_edit"] = [sz.randrange(1000), sz.randrange(1000)]
    if sz.random() < 0.5:
        # a sibling circuit compiled first with the *same compiler objects*: a compile must not depend on what the
        # compiler compiled before (same total register count but another emitter/photon split when possible)
        total = ne + np_
        splits = [(e, total - e) for e in range(1, 4) if 0 <= total - e <= 4 and (e, total - e) != (ne, np_)]
        ne2, np2 = sz.choice(splits) if splits and sz.random() < 0.7 else (sz.randint(1, 3), sz.randint(0, 3))
        case["sibling"] = {"ne": ne2, "np": np2, "nc": nc, "history": gen_program(wl, ne2, np2, nc, sz.randint(1, 8), False, None, 0.3)}
    if init is not None and sz.random() < 0.5:
        case["init_shared"] = True  # one initial-state object per backend for every compile of the run
    if sz.random() < 0.2:
        case["bad_setting"] = sz.randrange(1000)  # fault: a refused assignment of an invalid measurement setting before every compile
    return case


def simplify(case):
    for key in ("init_shared", "bad_setting"):
        if case.get(key) is not None:
            c = dict(case)
            c.pop(key)
            yield c
    if case.get("post_edit"):
        c = dict(case)
        c.pop("post_edit")
        yield c
    if case.get("sibling"):
        c = dict(case)
        c.pop("sibling")
        yield c
        sib = case["sibling"]
        for i in range(len(sib["history"])):
            c = dict(case)
            c["sibling"] = dict(sib, history=sib["history"][:i] + sib["history"][i + 1:])
            yield c
    if case.get("init"):
        c = dict(case)
        c["init"] = None
        yield c
        if len(case["init"]) > 1:
            for i in range(len(case["init"])):
                c = dict(case)
                c["init"] = case["init"][:i] + case["init"][i + 1:]
                yield c
    for i, st in enumerate(case["history"]):
        if st[0] == "ins":
            c = dict(case)
            h = list(case["history"])
            h[i] = ["add", st[1]]
            c["history"] = h
            yield c
        if st[1][0] == "w" and len(st[1][1]) > 1:
            c = dict(case)
            h = list(case["history"])
            sp = list(st[1])
            sp[1] = sp[1][:-1]
            h[i] = [st[0], sp] + list(st[2:])
            c["history"] = h
            yield c


# ------------------------------------------------------------------------------------------------ building
def build(case, ctx=None):
    circ = gq.CircuitDAG(n_emitter=case["ne"], n_photon=case["np"], n_classical=case["nc"])
    m = Model(case["ne"], case["np"], case["nc"])
    for st in case["history"]:
        spec = st[1]
        qr = gq.qregs(spec)
        if st[0] == "ins":
            epos = [st[2 + i] % (len(m.wires[key]) + 1) for i, key in enumerate(qr)]
            edges = []
            for key, p in zip(qr, epos):
                w = [f"{key[0]}{key[1]}_in"] + m.wires[key] + [f"{key[0]}{key[1]}_out"]
                edges.append((w[p], w[p + 1], f"{key[0]}{key[1]}"))
            if len(qr) == 1 or edges[1] not in circ.find_incompatible_edges(edges[0]):
                circ.insert_at(gq.make_op(spec), edges)
                n = m.new_node(spec)
                for key, p in zip(qr, epos):
                    m.wires[key].insert(p, n)
                if ctx:
                    ctx.probe("inserted_op")
                continue
        circ.add(gq.make_op(spec))
        n = m.new_node(spec)
        for key in qr:
            m.wires[key].append(n)
    return circ, m


class _Rec:
    def compile_one_gate(self, state, op, n_quantum, q_index, classical_registers):
        super().compile_one_gate(state, op, n_quantum, q_index, classical_registers)
        sp = gq.spec_of(op)
        if sp is not None:
            self.recorded.append((sp, tuple(int(x) for x in classical_registers)))


class RecStab(_Rec, StabilizerCompiler):
    pass


class RecDM(_Rec, DensityMatrixCompiler):
    pass


BAD_SETTINGS = ["one", 2, None, "deterministic", -1, 0.5]


def initial_states(case):
    """(psi0, factory(backend) -> QuantumState) or (None, None)"""
    if not case.get("init"):
        return None, None
    n = case["ne"] + case["np"]
    s = sv.SV(n)
    for g in case["init"]:
        if g[0] in ("CNOT", "CZ"):
            (s.cnot if g[0] == "CNOT" else s.cz)(g[1], g[2])
        else:
            s.u1(g[1], g[0])

    def factory(backend):
        if backend == "dm":
            return QuantumState(data=s.rho(), rep_type="dm")
        t = CliffordTableau(n)
        f1 = {"H": tr.hadamard_gate, "P": tr.phase_gate, "Pd": tr.phase_dagger_gate, "X": tr.x_gate, "Y": tr.y_gate, "Z": tr.z_gate}
        for g in case["init"]:
            if g[0] == "CNOT":
                t = tr.cnot_gate(t, g[1], g[2])
            elif g[0] == "CZ":
                t = tr.control_z_gate(t, g[1], g[2])
            else:
                t = f1[g[0]](t, g[1])
        xs, zs, ss, _ = gq.tableau_rows(t)
        if not np.allclose(sv.projector_from_rows(n, list(zip(xs, zs, ss))), s.rho(), atol=1e-9):
            return None  # the gate functions themselves are wrong: C07's business, not judged here
        return QuantumState(data=t, rep_type="stabilizer")

    return s.psi.copy(), factory


def state_matrix(backend, state, n):
    if backend == "dm":
        return np.asarray(state.rep_data.data)
    t = state.rep_data.data
    xs, zs, ss, ips = gq.tableau_rows(t)
    if any(ips):
        return None
    return sv.projector_from_rows(n, list(zip(xs, zs, ss)))


# ------------------------------------------------------------------------------------------------ one execution
def execute(ctx, case, circ, model, backend, det, bits, psi0, factory, rnd_fallback=None, comp=None):
    """compile once; judge against the reference. returns (ok, n_random_draws_used, full_bits)"""
    ne, np_, nc = case["ne"], case["np"], case["nc"]
    n = ne + np_
    if comp is None:
        comp = RecStab() if backend == "stab" else RecDM()
    comp.recorded = []
    comp.measurement_determinism = det
    if case.get("bad_setting") is not None:
        # fault: an assignment of an invalid setting is refused; the compiler object is used on with the valid one
        ctx.fault("rejected_edit")
        try:
            comp.measurement_determinism = BAD_SETTINGS[case["bad_setting"] % len(BAD_SETTINGS)]
            ctx.probe("invalid_setting_accepted")
        except core.HarnessError:
            raise
        except Exception:
            ctx.probe("invalid_setting_refused")
    # under a forced setting the RNG should not matter: if the backend consults it anyway, the scheduler answers with
    # the outcome opposite to the forced one (adversarial but legal), so that a setting that is silently ignored shows
    script = OutcomeScript(bits, fallback=rnd_fallback if rnd_fallback is not None else ((1 - det) if det in (0, 1) else 0))
    init = None
    if factory is not None:
        shared = case.get("_init_shared")
        if shared is not None and backend in shared:
            # the caller keeps one initial-state object and hands it to every compile of the run
            init = shared[backend]
            ctx.probe("initial_state_object_reused")
        else:
            init = factory(backend)
            if shared is not None and init is not None:
                shared[backend] = init
        if init is None:
            ctx.probe("initial_state_skipped")
            return True, 0, []
    sig = {"backend": backend, "det": str(det)}
    try:
        with OwnedRNG(random.Random(1), outcomes=script, ctx=ctx):
            state = comp.compile(circ, initial_state=init) if init is not None else comp.compile(circ)
    except core.HarnessError:
        raise
    except Exception as e:
        ctx.violate("unexpected_exception", -1, f"{backend} det={det}: {type(e).__name__}: {e}", dict(sig, exc=type(e).__name__))
        return False, 0, []
    recorded = comp.recorded
    # ---- order consistency: consume per-wire queues
    flat = model.flat()
    queues = {k: list(v) for k, v in flat.items()}
    for i, (sp, _) in enumerate(recorded):
        for (t, r) in gq.qregs(sp):
            q = queues.get((t, r))
            if q is None:
                ctx.violate("O_order", i, f"{backend}: executed {sp} on register {t}{r}, which the circuit does not have", sig)
                return False, 0, []
            if not q:
                ctx.violate("O_order", i, f"{backend}: op {sp} executed but wire {t}{r} has no operation left", sig)
                return False, 0, []
            head = q.pop(0)
            ok = (head == sp[1]) if sp[0] == "g1" else (not isinstance(head, str) and head[0] == sp[0] and head[1] == sp[1])
            if not ok:
                ctx.violate("O_order", i, f"{backend}: executed {sp} but the next operation on wire {t}{r} is {head}", sig)
                return False, 0, []
    if any(queues.values()):
        ctx.violate("O_order", len(recorded), f"{backend}: operations never executed: { {k: v for k, v in queues.items() if v} }", sig)
        return False, 0, []
    # ---- reference along the executed order, following the outcomes the backend recorded in the classical registers
    # (robust against harmless changes of *when* the backend consults its RNG; the consult pattern is only a probe)
    taken = list(script.taken)
    rec_out = []
    for sp, creg in recorded:
        if sp[0] == "m":
            rec_out.append(creg[sp[3]])
        elif sp[0] == "cc":
            rec_out.append(creg[sp[6]])

    def chooser(k, rnd, p0):
        if not rnd:
            return 0
        if det != "probabilistic":
            return det
        return 1 if (k < len(rec_out) and rec_out[k] == 1) else 0

    specs = [sp for sp, _ in recorded]
    ref, cfinal, trace, csnaps = run_reference(ne, np_, nc, specs, chooser, psi0)
    n_rand = sum(1 for t in trace if t[3])
    if det != "probabilistic" and taken:
        ctx.probe("rng_consulted_in_forced_mode")
    if det == "probabilistic":
        consumed = len(script.used)
        if consumed != n_rand:
            ctx.probe("rng_consult_pattern_differs_from_random_measurements")
        if backend == "dm":
            ps = [t[2] for t in taken if t[2] is not None]
            if len(ps) == len(trace) and any(abs(p[0] - t[4]) > 1e-7 for p, t in zip(ps, trace)):
                # the property conditions on the outcomes drawn; the distribution they are drawn from is not part of it
                ctx.probe("dm_probabilities_differ_from_reference")
    for (i, q, o, rnd, p0) in trace:
        if rnd and q < np_:
            ctx.probe("random_measurement_on_photon")
        if not rnd and det in (0, 1) and o != det:
            ctx.probe("forced_value_impossible")
        if 0 < min(p0, 1 - p0) < 1e-9:
            ctx.probe("measurement_prob_near_deterministic")
    # ---- classical record after every op
    for i, ((sp, creg), want) in enumerate(zip(recorded, csnaps)):
        if tuple(creg) != tuple(want):
            ctx.violate("C_classical_record", i, f"{backend} det={det}: after {sp} classical registers are {creg}, reference {want}", dict(sig, op=sp[1] if sp[0] == "cc" else sp[0]))
            return False, 0, []
    # ---- state
    rho = state_matrix(backend, state, n)
    if rho is None:
        ctx.violate("S_state", -1, f"{backend}: stabilizer rows carry imaginary phases", sig)
        return False, 0, []
    want = ref.rho()
    if rho.shape != want.shape:
        ctx.violate("S_state", -1, f"{backend}: state has shape {rho.shape}, expected {want.shape}", sig)
        return False, 0, []
    if not np.all(np.isfinite(rho)) or not np.allclose(rho, want, atol=TOL):
        err = float(np.nanmax(np.abs(rho - want))) if np.all(np.isfinite(rho)) else float("nan")
        has_mcr = any(sp[0] == "cc" and sp[1] == "MCR" for sp in specs)
        ctx.violate("S_state", -1, f"{backend} det={det} bits={bits}: final state differs from the reference (max abs err {err:.3g}); outcomes {[(t[1], t[2]) for t in trace]}", dict(sig))
        return False, 0, []
    nrand = sum(1 for t in trace if t[3])
    used = [t[2] for t in trace if t[3]]
    return True, nrand, used


# ------------------------------------------------------------------------------------------------ run
def run_case(case):
    ctx = Ctx(ID)
    try:
        circ, model = build(case, ctx)
    except Exception as e:
        # building is C12's subject; a crash here is not judged by C01
        ctx.probe("build_failed")
        return ctx.result(False, sample={"skipped": repr(e)})
    psi0, factory = initial_states(case)
    if factory is not None:
        ctx.probe("initial_state_used")
    case = dict(case)
    if case.get("init_shared"):
        case["_init_shared"] = {}
    specs = [st[1] for st in case["history"]]
    # probes on program shape
    seen_meas = set()
    after_meas = False
    for sp in specs:
        qs = gq.qregs(sp)
        if any(q in seen_meas for q in qs):
            after_meas = True
            if any(("reset", q) in seen_meas for q in qs):
                pass
        if sp[0] in ("cc", "m"):
            seen_meas.add(qs[0])
        if sp[0] in ("g2", "cc") and sp[2] == "p":
            ctx.probe("control_on_photon")
        if sp[0] == "w" and len(sp[1]) >= 3:
            ctx.probe("wrapper_len_ge3")
    reset_q = set()
    for sp in specs:
        qs = gq.qregs(sp)
        if any(q in reset_q for q in qs):
            ctx.probe("gate_after_reset")
            break
        if sp[0] == "cc" and sp[1] == "MCR":
            reset_q.add(qs[0])
    has2 = any(sp[0] in ("g2", "cc") for sp in specs)
    nontrivial = has2 and after_meas

    ok = True
    brng = random.Random(case["bseed"])
    sib = None
    if case.get("sibling"):
        try:
            sib = (case["sibling"],) + build(case["sibling"])
        except Exception:
            sib = None
    for backend in ("stab", "dm"):
        if not ok:
            break
        # one compiler object per backend for the whole run (first use = fresh compiler)
        comp = RecStab() if backend == "stab" else RecDM()
        if sib is not None:
            ctx.probe("compiler_reused_after_other_circuit")
            ctx.steps += 1
            ok, _, _ = execute(ctx, sib[0], sib[1], sib[2], backend, 1, [], None, None, comp=comp)
            if not ok:
                break
        for det in (0, 1):
            ctx.steps += 1
            ok, _, _ = execute(ctx, case, circ, model, backend, det, [], psi0, factory, comp=comp)
            ctx.fault("forced_outcome")
            if not ok:
                break
        if not ok:
            break
        # outcome tree in probabilistic mode
        queue = [[]]
        leaves = 0
        truncated = False
        while queue and ok:
            bits = queue.pop(0)
            ctx.steps += 1
            ok, nrand, used = execute(ctx, case, circ, model, backend, "probabilistic", bits, psi0, factory, comp=comp)
            if not ok:
                break
            leaves += 1
            ctx.fault("scripted_outcome", len(used))
            ctx.log(backend, "leaf", used)
            for i in range(len(bits), len(used)):
                queue.append(used[:i] + [1])
            if leaves >= 16 and queue:
                truncated = True
                break
        if ok and truncated:
            ctx.probe("sampled_branches")
            for _ in range(8):
                ctx.steps += 1
                ok, nrand, used = execute(ctx, case, circ, model, backend, "probabilistic", [], psi0, factory, rnd_fallback=random.Random(brng.randrange(10**9)), comp=comp)
                ctx.fault("scripted_outcome", len(used))
                ctx.log(backend, "sampled", used)
                if not ok:
                    break
        elif ok:
            ctx.probe("full_branch_sweep")
            ctx.fault("branch_sweep")
    if ok and case.get("post_edit"):
        g1_nodes = [n_ for n_ in model.nodes() if model.spec[n_][0] == "g1"]
        if g1_nodes:
            node = g1_nodes[case["post_edit"][0] % len(g1_nodes)]
            old_sp = model.spec[node]
            names = [x for x in gq.NAMES1 if x != old_sp[1]]
            new_sp = ["g1", names[case["post_edit"][1] % len(names)], old_sp[2], old_sp[3]]
            try:
                circ.replace_op(node, gq.make_op(new_sp))
            except Exception:
                new_sp = None  # replace_op itself is C12's subject
            if new_sp is not None:
                model.spec[node] = new_sp
                ctx.probe("edited_after_compile")
                for backend in ("stab", "dm"):
                    for det in (1, 0):
                        ctx.steps += 1
                        ok, _, _ = execute(ctx, case, circ, model, backend, det, [], psi0, factory)
                        if not ok:
                            break
                    if not ok:
                        break
    ctx.log("program", specs)
    return ctx.result(nontrivial, sample={"ne": case["ne"], "np": case["np"], "nc": case["nc"], "init": case.get("init"), "program": case["history"][:12]})

"""
C02 - the time-reversed solver returns a circuit that generates the target exactly.

System under simulation: TimeReversedSolver (real code, with a real metric and compiler) on a seeded target; the
returned circuit is then executed on every measurement-outcome branch by three judges (textbook reference semantics,
stabilizer backend, density-matrix backend) with the outcome RNG owned by the simulator.
"""
import random

import numpy as np

from graphiq.backends.density_matrix.compiler import DensityMatrixCompiler
from graphiq.backends.stabilizer.compiler import StabilizerCompiler
from graphiq.circuit import ops
from graphiq.metrics import Infidelity
from graphiq.solvers.time_reversed_solver import TimeReversedSolver
from graphiq.state import QuantumState

from sim import circcheck, core, gq, graphs
from sim.core import Ctx, stream
from sim.ref import sv
from sim.seam import OutcomeScript, OwnedRNG

ID = "C02"
RUNS = {"quick": 2400, "thorough": 40000}
BUDGET = {"quick": 75, "thorough": 1500}
CHUNK = {"quick": 10, "thorough": 40}
RUN_TIMEOUT_S = 600
RULE = (
    "target = seeded labelled simple graph on n = 1..7 vertices (Erdos-Renyi at several densities, path, star, cycle, "
    "complete, random tree, repeater graph, disjoint unions, with isolated vertices in a minority of runs), randomly "
    "relabelled, presented as graph / stabilizer / density-matrix QuantumState; solver run with the stabilizer or the "
    "density-matrix compiler under forced-0, forced-1 or probabilistic outcomes; the returned circuit is judged on every "
    "leaf of its outcome tree (<=16 leaves, else seeded samples) by reference semantics and by both graphiq backends. "
    "Distinct = distinct event-log digest; non-trivial = the circuit has >=2 emitters or a measure-and-reset followed by "
    "a further emission from the same emitter."
)
PROBES = ["reset_then_emission", "two_or_more_emitters", "disconnected_target", "isolated_vertex_target",
          "dm_presented_target", "stabilizer_presented_target", "solver_with_dm_compiler", "solver_probabilistic", "solve_called_twice", "stabilizer_other_generators_target", "vertices_created_unsorted"]
REAL = ["graphiq.solvers.time_reversed_solver.TimeReversedSolver", "graphiq.metrics.Infidelity",
        "StabilizerCompiler / DensityMatrixCompiler", "graphiq.state.QuantumState (+ representation conversion of the target)",
        "graphiq.backends.stabilizer.functions (rref, height, inverse_circuit, transformation)"]
STUB = ["measurement-outcome RNG answered by the outcome scheduler"]
ASSUMPTIONS = [
    "qubit k of a graph-typed target is the k-th created vertex (the convention all of graphiq's graph conversions share); vertices are created in sorted or shuffled order",
    "target state vector is built independently as CZ-on-|+>^n from the input edge list",
]


KNOWN_GAP_EXAMPLE = [(0, 1), (0, 6), (0, 7), (0, 8), (0, 9), (1, 2), (1, 3), (1, 4), (1, 5), (1, 6), (1, 8), (1, 9), (2, 3), (2, 5), (2, 8),
                     (3, 4), (3, 8), (3, 9), (4, 5), (4, 6), (4, 7), (4, 8), (4, 9), (5, 6), (5, 7), (5, 8), (5, 9), (6, 7), (6, 8), (6, 9),
                     (7, 8), (7, 9)]


def _pivot_gap(tab):
    """does inverse_circuit's first Hadamard block meet a column on which no remaining row has a literal? (replicates the
    block's bookkeeping on a copy; used only to *label* a violation with the call-site condition of the defect fixed by 898a575, and as a reach probe)"""
    import graphiq.backends.stabilizer.functions.stabilizer as sfs
    import graphiq.backends.stabilizer.functions.transformation as transform

    t = sfs.canonical_form(tab.copy())
    n = t.n_qubits
    pivot = [0, 0]
    for j in range(n):
        pivot[1] = j
        xl, yl, zl = sfs.pauli_type_finder(t.x_matrix, t.z_matrix, pivot)
        if xl:
            t = sfs.tab_row_swap(t, pivot[0], xl[0])
        elif yl:
            t = sfs.tab_row_swap(t, pivot[0], yl[0])
        elif zl:
            t = sfs.tab_row_swap(t, pivot[0], zl[-1])
            if np.any(t.x_matrix[pivot[0], j + 1: n]) or np.any(t.z_matrix[pivot[0], j + 1: n]):
                t = transform.hadamard_gate(t, j)
        else:
            return True
        pivot[0] += 1
    return False


def gen_case(run_seed, tier):
    sz = stream(run_seed, "sizes")
    nmax = 7 if tier == "thorough" else 6
    if sz.random() < 0.2:
        nmax = 8  # a share of larger targets (rare emitter re-use patterns start at 6-8 vertices)
    aim_isolated = sz.random() < 0.1
    big10 = sz.random() < (0.1 if tier == "thorough" else 0.02)
    aim_gap = sz.random() < 0.004
    if aim_gap:
        # the input on which the defect fixed by 898a575 (inverse_circuit pivot gap) was found: kept in the workload as a regression input
        g, fam = (10, [tuple(e) for e in KNOWN_GAP_EXAMPLE]), "known-gap-example"
    elif big10:
        # 9-10 vertices (up to 5 emitters, 15 qubits): stabilizer-only judging
        while True:
            g = graphs.relabel(sz, graphs.er(sz, sz.choice([9, 10]), sz.choice([0.3, 0.45, 0.6])))
            if graphs.is_connected(g):
                break
        fam = "er-9-10"
    elif aim_isolated:
        g, fam = graphs.random_graph(sz, 1, min(nmax, 7), allow_isolated=True)
    elif nmax == 8:
        # larger connected random targets: emitter re-use patterns (an emitter freed by a mid-circuit measurement and
        # used again through a generator spanning two emitters) only start to appear at 6-8 vertices
        while True:
            g = graphs.relabel(sz, graphs.er(sz, sz.choice([7, 8, 8]), sz.choice([0.3, 0.45, 0.6])))
            if graphs.is_connected(g):
                break
        fam = "er-large"
    else:
        g, fam = graphs.random_graph(sz, 2, nmax, allow_isolated=False, fams=["er", "er", "path", "star", "cycle", "complete", "tree", "rgs", "union", "union", "union"])
    rep = sz.choice(["g", "g", "s", "dm", "s2"])
    backend = sz.choice(["stab", "stab", "dm"])
    if g[0] > 8:
        rep, backend = sz.choice(["g", "s"]), "stab"
    if g[0] > 5 and backend == "dm":
        backend = "stab"  # n photons + up to ~n/2 emitters: density matrices beyond 8 qubits take minutes per compile
    if g[0] > 6 and rep == "dm":
        rep = "s"
    if aim_isolated and rep == "s2":
        rep = "g"
    det = sz.choice([0, 1, 2])
    case = {"n": g[0], "edges": [list(e) for e in g[1]], "family": fam, "rep": rep, "backend": backend, "det": det, "oseed": sz.randrange(10**9), "shuffle_edges": sz.random() < 0.3,
            "solve_twice": sz.random() < 0.3, "shuffle_nodes": sz.random() < 0.3}
    if aim_gap:
        case.update(shuffle_edges=False, shuffle_nodes=False, solve_twice=False)
    return case


def simplify(case):
    if case["rep"] != "g":
        c = dict(case)
        c["rep"] = "g"
        yield c
    if case["backend"] != "stab":
        c = dict(case)
        c["backend"] = "stab"
        yield c
    if case["det"] != 1:
        c = dict(case)
        c["det"] = 1
        yield c
    if case.get("solve_twice"):
        c = dict(case)
        c["solve_twice"] = False
        yield c
    for i in range(len(case["edges"])):
        c = dict(case)
        c["edges"] = case["edges"][:i] + case["edges"][i + 1:]
        yield c
    n = case["n"]
    if n > 1:
        # drop the last vertex
        c = dict(case)
        c["n"] = n - 1
        c["edges"] = [e for e in case["edges"] if n - 1 not in e]
        yield c


def node_order(case):
    """creation order of the vertices; qubit k of the target is the k-th created vertex (graphiq's convention)"""
    order = list(range(case["n"]))
    if case.get("shuffle_nodes") and case["rep"] in ("g", "s", "s2"):
        random.Random(case["oseed"] + 29).shuffle(order)
    return order


def expected_edges(case):
    pos = {v: k for k, v in enumerate(node_order(case))}
    return sorted((min(pos[a], pos[b]), max(pos[a], pos[b])) for a, b in case["edges"])


def make_target(case):
    n, edges = case["n"], [tuple(e) for e in case["edges"]]
    g = graphs.to_nx((n, edges), edge_order_seed=(case["oseed"] + 17) if case.get("shuffle_edges") else None)
    order = node_order(case)
    if order != list(range(n)):
        import networkx as nx

        g2 = nx.Graph()
        g2.add_nodes_from(order)
        g2.add_edges_from(g.edges)
        g = g2
    if case["rep"] == "s2":
        # the same state in another generating set: the photons' state compiled from a circuit that generates it
        # (generators as the compile and the trace-out leave them, possibly with minus signs)
        t0 = QuantumState(g, rep_type="g")
        c0 = StabilizerCompiler()
        c0.measurement_determinism = 1
        s0 = TimeReversedSolver(target=t0, metric=Infidelity(t0), compiler=c0)
        s0.solve()
        c1 = StabilizerCompiler()
        c1.measurement_determinism = 1
        st = c1.compile(s0.result[1])
        st.partial_trace(keep=list(range(n)), dims=s0.result[1].n_quantum * [2])
        return st
    if case["rep"] == "dm":
        psi = sv.graph_state(n, edges).psi
        return QuantumState(np.outer(psi, psi.conj()), rep_type="dm")
    t = QuantumState(g, rep_type="g")
    if case["rep"] == "s":
        t.convert_representation("s")
    return t


def run_case(case):
    ctx = Ctx(ID)
    n, edges = case["n"], [tuple(e) for e in case["edges"]]
    g = (n, edges)
    judge_edges = expected_edges(case)
    iso = bool(graphs.isolated(g))
    conn = graphs.is_connected(g)
    if iso:
        ctx.probe("isolated_vertex_target")
    if not conn:
        ctx.probe("disconnected_target")
    ctx.probe({"g": "graph_presented_target", "s": "stabilizer_presented_target", "dm": "dm_presented_target", "s2": "stabilizer_other_generators_target"}[case["rep"]])
    if node_order(case) != list(range(n)):
        ctx.probe("vertices_created_unsorted")
    det = {0: 0, 1: 1, 2: "probabilistic"}[case["det"]]
    sig = {"isolated": iso, "connected": conn}
    try:
        target = make_target(case)
        metric = Infidelity(target)
        comp = StabilizerCompiler() if case["backend"] == "stab" else DensityMatrixCompiler()
        comp.measurement_determinism = det
    except Exception as e:
        # constructing the target/metric is C08/C17 territory
        ctx.probe("target_construction_failed")
        return ctx.result(False, sample={"skipped": repr(e)})
    if case["backend"] == "dm":
        ctx.probe("solver_with_dm_compiler")
    if det == "probabilistic":
        ctx.probe("solver_probabilistic")
    import graphiq.backends.stabilizer.functions.stabilizer as sfs

    gap_seen = []
    real_inverse = sfs.inverse_circuit

    def spy(tab):
        try:
            gap_seen.append(bool(_pivot_gap(tab)))
        except Exception:
            gap_seen.append(False)
        return real_inverse(tab)

    try:
        sfs.inverse_circuit = spy
        with OwnedRNG(random.Random(case["oseed"]), outcomes=OutcomeScript([], fallback=random.Random(case["oseed"] + 1)), ctx=ctx):
            solver = TimeReversedSolver(target=target, metric=metric, compiler=comp)
            solver.solve()
            if case.get("solve_twice"):
                # the solver object is used again: the second result must be as good as the first
                first = solver.result
                solver.solve()
                ctx.probe("solve_called_twice")
        score, circ = solver.result
    except core.HarnessError:
        raise
    except Exception as e:
        ctx.violate("unexpected_exception", 0, f"TimeReversedSolver on n={n} edges={edges} rep={case['rep']}: {type(e).__name__}: {e}", dict(sig, stage="solve", exc=type(e).__name__))
        return ctx.result(False, sample=case)
    finally:
        sfs.inverse_circuit = real_inverse
    if any(gap_seen):
        ctx.probe("inverse_circuit_pivot_gap_seen")
        sig = dict(sig, inverse_circuit_pivot_gap=True)
    ctx.steps += 1
    ctx.log("solved", n, edges, case["rep"], case["backend"], case["det"], circ.n_emitters, len(circ.dag.nodes))
    try:
        circ.validate()
    except Exception as e:
        ctx.violate("R_invalid_circuit", 1, f"validate(): {e!r}", sig)
        return ctx.result(False, sample=case)
    specs = circcheck.circuit_specs(circ)
    ctx.log("circuit", specs)
    # non-triviality
    reset_seen = set()
    reset_then_emit = False
    for s in specs:
        if s[0] == "cc" and s[1] == "MCR":
            reset_seen.add((s[2], s[3]))
        elif s[0] == "g2" and s[1] == "CNOT" and s[4] == "p" and (s[2], s[3]) in reset_seen:
            reset_then_emit = True
    if reset_then_emit:
        ctx.probe("reset_then_emission")
    if circ.n_emitters >= 2:
        ctx.probe("two_or_more_emitters")
    nontrivial = reset_then_emit or circ.n_emitters >= 2
    ok = circcheck.generates(ctx, circ, n, judge_edges, sig, max_leaves=16, seed=case["oseed"], label="TimeReversedSolver result: ")
    if ok:
        try:
            sc = float(score)
        except Exception:
            sc = float("nan")
        if not (abs(sc) <= 1e-9):
            ctx.violate("R_score", 2, f"reported score {score!r} for a circuit that generates the target exactly (true infidelity 0)", sig)
    return ctx.result(nontrivial, sample={"n": n, "edges": edges, "rep": case["rep"], "backend": case["backend"], "det": case["det"], "emitters": circ.n_emitters, "ops": len(specs)})

"""
C10 - every alternate-target result generates the relabelled target.

System under simulation: AlternateTargetSolver.solve() (iso_finder -> LC-orbit explorer -> TimeReversedSolver ->
LC conversion gates) on a seeded connected target with every Generator / global RNG draw owned by the simulator
(rng_duplicate injected); each returned entry (circuit, graph, map) is then executed on every measurement-outcome
branch by the three judges of sim/circcheck.py against |pi(G)> built independently from the input edges and the map.
"""
import random
import warnings

import networkx as nx
import numpy as np

from graphiq.backends.stabilizer.compiler import StabilizerCompiler
from graphiq.metrics import Infidelity
from graphiq.solvers.alternate_target_solver import AlternateTargetSolver, AlternateTargetSolverSetting
from graphiq.state import QuantumState

from sim import circcheck, core, graphs
from sim.core import Ctx, stream
from sim.ref import graph as gref, sv
from sim.seam import OutcomeScript, OwnedRNG

ID = "C10"
RUNS = {"quick": 1400, "thorough": 40000}
BUDGET = {"quick": 80, "thorough": 1500}
CHUNK = {"quick": 10, "thorough": 40}
RUN_TIMEOUT_S = 600
METHODS = ["default", "none", "lc_with_iso", "random", "random_with_iso", "random_with_rep", "depth_first", "linear", "rgs"]
RULE = (
    "target = seeded connected graph n = 3..6 (path, star, cycle, tree, repeater graph, ER), given as networkx graph or as "
    "graph / stabilizer / density-matrix QuantumState; setting = n_iso_graphs 1-4 x n_lc_graphs 1-4 x lc_method in {default, "
    "None, lc_with_iso, random, random_with_iso, random_with_rep, depth_first, linear (paths), rgs (repeater graphs)} x "
    "lc_orbit_depth x seed in {None, int}; solver built with default settings in a share of runs. Every entry is judged on all "
    "outcome branches (<=16 leaves else samples). Distinct = distinct event-log digest; non-trivial = >=2 entries, one with "
    "g != pi(G) and one with pi != identity."
)
PROBES = ["default_setting_solver", "entries_ge_2", "entry_with_lc_graph_different", "entry_with_nonidentity_map",
          "target_as_nx", "target_as_g", "target_as_s", "target_as_dm", "seedless", "target_nodes_inserted_unsorted", "solver_with_noise_model", "result_table_sorted"]
REAL = ["graphiq.solvers.alternate_target_solver.AlternateTargetSolver.solve / graph_to_circ", "graphiq.utils.relabel_module",
        "graphiq.backends.stabilizer.functions.local_cliff_equi_check (lc_check, str_to_op, state_converter_circuit)",
        "graphiq.solvers.time_reversed_solver.TimeReversedSolver", "graphiq.solvers.solver_result.SolverResult", "both compilers"]
STUB = ["numpy Generators / global numpy RNG / measurement outcomes owned by the simulator"]
ASSUMPTIONS = [
    "for stabilizer / density-matrix presentations vertex i is qubit i (vertices inserted in sorted order); for networkx / graph "
    "presentations the vertices are also inserted in shuffled order and the entry's map is read as label -> new label",
    "orbit explorers are always bounded by n_lc_graphs (orbit_size_thresh) as the solver does",
]


def gen_case(run_seed, tier):
    sz = stream(run_seed, "sizes")
    method = sz.choice(METHODS + ["default", "default"])
    nmax = 6 if tier == "thorough" else 5
    big = sz.random() < 0.2  # an 8-vertex target now and then (size-gated code paths); kept to cheap methods
    if method == "linear":
        g, fam = graphs.relabel(sz, graphs.path(sz.randint(3, nmax))), "path"
    elif method == "rgs":
        g, fam = (graphs.rgs(sz.choice([2, 3])) if sz.random() < 0.5 else graphs.relabel(sz, graphs.rgs(sz.choice([2, 3])))), "rgs"
    elif method == "depth_first":
        g, fam = graphs.random_graph(sz, 3, 5, connected=True, allow_isolated=False)
    else:
        g, fam = graphs.random_graph(sz, 3, nmax, connected=True, allow_isolated=False)
    if big:
        method = sz.choice(["none", "lc_with_iso", "random", "default"])
        while True:
            g = graphs.relabel(sz, graphs.er(sz, 8, sz.choice([0.3, 0.45])) if sz.random() < 0.6 else graphs.tree(sz, 8))
            if graphs.is_connected(g):
                break
        fam = "big"
    return {
        "n": g[0], "edges": [list(e) for e in g[1]], "family": fam, "method": method,
        "n_iso": sz.randint(1, 4) if not big else sz.randint(2, 3), "n_lc": sz.randint(1, 4) if not big else sz.randint(1, 2),
        "depth": sz.choice([None, None, 1, 2, 3]),
        "seed": sz.choice([None, sz.randrange(1000), sz.randrange(1000)]),
        "present": sz.choice(["nx", "g", "s", "dm"]),
        "default_solver": method == "default" and sz.random() < 0.6 and not big,
        "lseed": sz.randrange(10**9), "bug_rate": sz.choice([0.0, 0.0, 0.2, 0.5]),
        "shuffle_nodes": sz.random() < 0.35,
        "noise": sz.random() < 0.25 and g[0] <= 5,
        "sort_result": sz.random() < 0.5,
        "shuffle_edges": sz.random() < 0.35,
        "again": ([sz.choice(["relabelled", "relabelled", "resolve"]), sz.randrange(10**6)] if sz.random() < 0.3 and not big else None),
    }


def simplify(case):
    if case.get("again"):
        c = dict(case)
        c["again"] = None
        yield c
    for key in ("n_iso", "n_lc"):
        if case[key] > 1:
            c = dict(case)
            c[key] = case[key] - 1
            yield c
    if case["bug_rate"]:
        c = dict(case)
        c["bug_rate"] = 0.0
        yield c
    if case["present"] != "nx":
        c = dict(case)
        c["present"] = "nx"
        yield c
    if case.get("shuffle_nodes"):
        c = dict(case)
        c["shuffle_nodes"] = False
        yield c
    if case["depth"] is not None:
        c = dict(case)
        c["depth"] = None
        yield c


def run_case(case):
    warnings.filterwarnings("ignore")
    ctx = Ctx(ID)
    n = case["n"]
    lib = random.Random(case["lseed"])
    seam = OwnedRNG(lib, outcomes=OutcomeScript([], fallback=random.Random(case["lseed"] + 1)), ctx=ctx,
                    buggify=case["bug_rate"] > 0, bug_rate={"rng_duplicate": case["bug_rate"], "rng_extreme": case["bug_rate"] / 2}, bug_rng=random.Random(case["lseed"] + 2))
    first = _round(ctx, case, seam, [tuple(e) for e in case["edges"]], "", None)
    if first is None or isinstance(first, dict):
        return ctx.result(False, sample=first if isinstance(first, dict) else case)
    solver, n_entries, flags = first
    again = case.get("again")
    if again and not ctx.violations:
        if again[0] == "relabelled":
            # a second target in the same process: the first one with its vertices renamed (a fresh solver object);
            # whatever the library remembered from the first target must not leak into this answer
            perm = list(range(n))
            random.Random(again[1]).shuffle(perm)
            edges2 = sorted((min(perm[a], perm[b]), max(perm[a], perm[b])) for a, b in case["edges"])
            ctx.probe("second_target_relabelled_copy")
            second = _round(ctx, case, seam, edges2, "second target: ", None)
        else:
            # the same solver object asked again after its seed was changed
            ctx.probe("solver_object_solved_twice")
            try:
                solver.seed = again[1] % 1000
            except Exception:
                pass
            second = _round(ctx, case, seam, [tuple(e) for e in case["edges"]], "second solve(): ", solver)
        if second is not None and not isinstance(second, dict):
            n_entries = max(n_entries, second[1])
            flags = {k: flags[k] or second[2][k] for k in flags}
    if flags["lc"]:
        ctx.probe("entry_with_lc_graph_different")
    if flags["perm"]:
        ctx.probe("entry_with_nonidentity_map")
    nontrivial = n_entries >= 2 and flags["lc"] and flags["perm"]
    return ctx.result(nontrivial, sample={k: case[k] for k in ("n", "edges", "method", "n_iso", "n_lc", "depth", "seed", "present")} | {"entries": n_entries, "again": case.get("again")})


def _round(ctx, case, seam, edges, tag0, solver):
    """one target (or one more solve() of a solver object): solve and judge every entry; returns (solver, number of
    entries, flags), None after a violation, or a dict (sample) when the round was skipped"""
    n = case["n"]
    G = graphs.to_nx((n, edges), edge_order_seed=(case["lseed"] + 17) if case.get("shuffle_edges") else None)
    if case.get("shuffle_nodes") and case["present"] in ("nx", "g"):
        # same labelled graph, vertices inserted in another order (the relabel map must then still be an isomorphism
        # from the target's labels); only for presentations that keep the labels
        order = list(range(n))
        random.Random(case["lseed"] + 9).shuffle(order)
        G = nx.Graph()
        G.add_nodes_from(order)
        G.add_edges_from(edges)
        ctx.probe("target_nodes_inserted_unsorted")
    sig = {"method": case["method"], "present": case["present"]}
    ctx.probe("target_as_" + case["present"])
    if case["seed"] is None:
        ctx.probe("seedless")
    with seam:
        try:
            if case["present"] == "nx":
                target = G
            elif case["present"] == "dm":
                psi = sv.graph_state(n, edges).psi
                target = QuantumState(np.outer(psi, psi.conj()), rep_type="dm")
            else:
                target = QuantumState(G, rep_type="g")
                if case["present"] == "s":
                    target.convert_representation("s")
        except Exception as e:
            ctx.probe("target_construction_failed")
            return {"skipped": repr(e)}
        try:
            if solver is not None:
                pass
            elif case["default_solver"]:
                solver = AlternateTargetSolver(target=target, seed=case["seed"])
                ctx.probe("default_setting_solver")
            else:
                setting = AlternateTargetSolverSetting()
                setting.n_iso_graphs = case["n_iso"]
                setting.n_lc_graphs = case["n_lc"]
                setting.lc_orbit_depth = case["depth"]
                if case["method"] != "default":
                    setting.lc_method = None if case["method"] == "none" else case["method"]
                solver = AlternateTargetSolver(target=target, solver_setting=setting, seed=case["seed"],
                                               noise_model_mapping="depolarizing" if case.get("noise") else None)
                if case.get("noise"):
                    ctx.probe("solver_with_noise_model")
            res = solver.solve()
        except core.HarnessError:
            raise
        except Exception as e:
            ctx.violate("unexpected_exception", 0, f"AlternateTargetSolver(method={case['method']}, n_iso={case['n_iso']}, n_lc={case['n_lc']}, seed={case['seed']}, target as {case['present']}) on edges {edges}: {type(e).__name__}: {e}",
                        dict(sig, exc=type(e).__name__))
            return None
    ctx.steps += 1
    A0 = gref.adj_from_edges(n, edges)
    entries = list(res)
    ctx.log("solved", case["method"], len(entries))
    if not entries:
        ctx.violate("A_no_entry", 1, f"{tag0}solve() returned an empty result list", sig)
        return None
    if len(entries) >= 2:
        ctx.probe("entries_ge_2")
    flags = {"lc": False, "perm": False}

    def judge(ents, tag, light):
        seen = {}
        for i, ent in enumerate(ents):
            try:
                circ, info = ent
                g_i, rmap = info["g"], info["map"]
                pi = {a: b for a, b in rmap.items() if a != -1}
            except Exception as e:
                ctx.violate("A_entry_malformed", i, f"{tag}entry #{i} is not (circuit, {{'g','map',..}}): {e!r}", sig)
                return False
            if sorted(pi) != list(range(n)) or sorted(pi.values()) != list(range(n)):
                ctx.violate("A_map_not_permutation", i, f"{tag}entry #{i}: map {pi} is not a permutation of the {n} vertices", sig)
                return False
            perm = [pi[v] for v in range(n)]
            if perm != list(range(n)):
                flags["perm"] = True
            piG = gref.relabel(A0, perm)
            piG_edges = gref.edges_of(piG)
            if sorted(g_i.nodes) != list(range(n)):
                ctx.violate("A_lc_graph_vertices", i, f"{tag}entry #{i}: listed graph has vertices {sorted(g_i.nodes)}", sig)
                return False
            key = gref.adj_from_edges(n, list(g_i.edges))
            if key != piG:
                flags["lc"] = True
            # O3 distinct
            if key in seen:
                ctx.violate("A_duplicate_graph", i, f"{tag}entries #{seen[key]} and #{i} list the same graph {sorted(g_i.edges)}", sig)
                return False
            seen[key] = i
            # O2 LC-equivalent to the renamed target
            orbit = gref.lc_orbit(piG, cap=20000 if n >= 8 else 200000)
            if orbit is None:
                ctx.probe("orbit_too_large_to_enumerate")
            if orbit is not None and key not in orbit:
                ctx.violate("A_not_lc_equivalent", i, f"{tag}entry #{i}: listed graph {sorted(g_i.edges)} is not LC-equivalent to the renamed target {piG_edges} (map {pi})", sig)
                return False
            # O1 the circuit generates |pi(G)>
            try:
                circ.validate()
            except Exception as e:
                ctx.violate("A_invalid_circuit", i, f"{tag}entry #{i}: validate() -> {e!r}", sig)
                return False
            if not circcheck.generates(ctx, circ, n, piG_edges, dict(sig, lc_graph_differs=key != piG), max_leaves=4 if light else 8, seed=case["lseed"] + i, use_dm=(not light) and (n + circ.n_emitters) <= 6,
                                       label=f"{tag}entry #{i} (map {pi}, listed graph {sorted(g_i.edges)}): "):
                return False
            ctx.log("entry", i, perm, sorted(g_i.edges))
        return True

    ok_all = judge(entries, tag0, False)
    if ok_all:
        # solver.result mirrors the returned list
        try:
            r = solver.result
            if len(r) != len(entries) or sorted(id(c) for c in r["circuit"]) != sorted(id(e[0]) for e in entries):
                ctx.violate("A_result_attr_mismatch", -1, "solver.result does not list the circuits of the returned entries", sig)
        except core.HarnessError:
            raise
        except Exception as e:
            ctx.violate("A_result_attr_mismatch", -1, f"solver.result unusable: {e!r}", sig)
    if ok_all and not ctx.violations and case.get("sort_result"):
        # the result table is re-ordered by the user (SolverResult.sort_by): every row must still pair a circuit with its
        # own graph and map
        try:
            solver.result.sort_by("score")
            r = solver.result
            rows = [(r["circuit"][j], {"g": r["g"][j], "map": r["map"][j]}) for j in range(len(r))]
            ctx.probe("result_table_sorted")
        except core.HarnessError:
            raise
        except Exception as e:
            rows = None
            ctx.violate("A_result_attr_mismatch", -1, f"solver.result.sort_by('score') failed: {e!r}", sig)
        if rows is not None:
            judge(rows, tag0 + "after sort_by: ", True)
    if ctx.violations:
        return None
    return solver, len(entries), flags

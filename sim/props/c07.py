"""
C07 - a Clifford tableau stays valid and tracks the right state under any history.

System under simulation: one graphiq CliffordTableau (optionally behind the Stabilizer / MixedStabilizer wrappers)
driven by a seeded history over the whole tableau API, with every measurement outcome decided by the simulator's
outcome scheduler (forced 0 / forced 1 / "probabilistic" with a scripted draw).  The independent bit-row stabilizer
reference (sim/ref/chp.py) is stepped in lock-step; invariants V1-V5 of DESIGN.md §6 are evaluated after every step.
"""
import random

import numpy as np

import graphiq.backends.stabilizer.functions.clifford as sfc
import graphiq.backends.stabilizer.functions.transformation as tr
from graphiq.backends.stabilizer.clifford_tableau import CliffordTableau
from graphiq.backends.stabilizer.state import MixedStabilizer, Stabilizer

from sim import core, gq
from sim.core import Ctx, stream
from sim.ref import chp, sv
from sim.seam import OutcomeScript, OwnedRNG

ID = "C07"
RUNS = {"quick": 4000, "thorough": 60000}
BUDGET = {"quick": 75, "thorough": 1200}
CHUNK = {"quick": 25, "thorough": 100}
RUN_TIMEOUT_S = 600
RULE = (
    "history = seeded sequence of 10-120 calls over the tableau API {H,P,Pdag,X,Y,Z,CNOT,CZ,CY, z_measurement_gate, "
    "measure_x/y/z, reset_z/x/y, swap_gate, insert_qubit, add_qubit, remove_qubit, tensor, partial_trace} directly, via "
    "Stabilizer or via MixedStabilizer, from |0>^n, |+>^n, |1>^n or a graph-state tableau, n in 1..6 (most), 8..32, "
    "64..200 (thorough); each measuring call is given forced 0, forced 1 or a scripted probabilistic outcome. "
    "Distinct = distinct event-log digest; non-trivial = >=1 entangling gate and >=1 structural op "
    "(insert/remove/swap/tensor/trace) executed while some stabilizer sign bit was 1."
)
PROBES = ["random_measurement", "deterministic_measurement_outcome1", "hidden_branch_not_the_forced_one",
          "remove_entangled", "remove_unentangled_in_one", "insert_with_sign_set", "swap_with_sign_set",
          "tensor_done", "ptrace_done", "large_n_run", "remove_deterministic_multi_destab"]
REAL = ["graphiq.backends.stabilizer.functions.transformation (all gates)",
        "graphiq.backends.stabilizer.functions.clifford (measurement, reset, insert, remove, swap, tensor, partial_trace)",
        "graphiq.backends.stabilizer.functions.linalg", "graphiq.backends.stabilizer.clifford_tableau",
        "graphiq.backends.stabilizer.state (Stabilizer, MixedStabilizer wrappers)"]
STUB = ["numpy.random.randint at clifford.py:z_measurement_gate is answered by the outcome scheduler"]
ASSUMPTIONS = [
    "reference = independent bit-row stabilizer simulator, cross-validated against a state-vector simulator in selftest",
    "reset_*/remove_qubit/partial_trace on an entangled qubit do not report their hidden measurement outcome: either "
    "legal post-measurement branch is accepted (refinement of a nondeterministic specification)",
    "the starting tableau is imported into the reference as is (its constructor is not judged here)",
]

G1 = {"H": tr.hadamard_gate, "P": tr.phase_gate, "Pd": tr.phase_dagger_gate, "X": tr.x_gate, "Y": tr.y_gate, "Z": tr.z_gate}
G2 = {"CNOT": tr.cnot_gate, "CZ": tr.control_z_gate, "CY": tr.control_y_gate}
DET = {0: 0, 1: 1, 2: "probabilistic"}
NMAX = 200


# ------------------------------------------------------------------------------------------------ generation
def gen_case(run_seed, tier):
    sz = stream(run_seed, "sizes")
    wl = stream(run_seed, "workload")
    r = sz.random()
    if tier == "thorough":
        cls = "small" if r < 0.7 else ("medium" if r < 0.9 else "large")
    else:
        cls = "small" if r < 0.85 else ("medium" if r < 0.98 else "large")
    if cls == "small":
        n0 = sz.randint(1, 6)
        length = sz.randint(10, 120 if tier == "thorough" else 60)
    elif cls == "medium":
        n0 = sz.randint(8, 32)
        length = sz.randint(10, 60)
    else:
        n0 = sz.choice([64, 100, 128, 200])
        length = sz.randint(6, 20)
    init = sz.choice(["zero", "plus", "one", "graph", "arrays"])
    api = sz.choice(["func", "func", "stab", "mixed"])
    kinds = ["g1", "g2", "mz", "mcopy", "reset", "swap", "ins", "addq", "rem", "tensor", "ptrace", "circ", "clone", "badcall"]
    w = {"g1": 8, "g2": 6, "mz": 2, "mcopy": 1, "reset": 1.5, "swap": 1.5, "ins": 1.5, "addq": 0.7, "rem": 1.5, "tensor": 0.7, "ptrace": 0.7, "circ": 1.0, "clone": 0.6,
         "badcall": 0.8 if sz.random() < 0.3 else 0}
    for k in kinds:
        if k not in ("g1", "g2") and sz.random() < 0.2:
            w[k] = 0
    hist = []
    for _ in range(length):
        k = wl.choices(kinds, weights=[w[x] for x in kinds])[0]
        a, b = wl.randrange(10000), wl.randrange(10000)
        det, bit = wl.choice([0, 1, 2]), wl.randrange(2)
        if k == "g1":
            hist.append([wl.choice(list(G1)), a])
        elif k == "g2":
            hist.append([wl.choice(list(G2)), a, b])
        elif k == "mz":
            hist.append(["mz", a, det, bit])
        elif k == "mcopy":
            hist.append([wl.choice(["mx", "my", "mzc"]), a, det, bit])
        elif k == "reset":
            hist.append([wl.choice(["rz", "rz", "rx", "ry"]), a, wl.randrange(2), det, bit])
        elif k == "swap":
            hist.append(["swap", a, b, wl.random() < 0.1])
        elif k == "badcall":
            hist.append(["badcall", wl.choice(["swap2", "swap1", "mz", "rz", "rz_intended", "ins", "rem"]), a, wl.choice([0, 0, 1, 2, 7]), wl.random() < 0.5])
        elif k == "clone":
            hist.append(["clone", wl.randrange(3)])
        elif k == "circ":
            gl = []
            for _ in range(wl.randint(1, 6)):
                g = wl.choice(["H", "P", "P_dag", "X", "Y", "Z", "I", "CNOT", "CZ"])
                gl.append([g, wl.randrange(10000), wl.randrange(10000)])
            hist.append(["circ", gl, wl.random() < 0.5])
        elif k == "ins":
            hist.append(["ins", a])
        elif k == "addq":
            hist.append(["addq"])
        elif k == "rem":
            hist.append(["rem", a, det, bit])
        elif k == "tensor":
            hist.append(["tensor", wl.randrange(6)])
        elif k == "ptrace":
            hist.append(["ptrace", a, wl.randint(1, 3), det, [wl.randrange(2) for _ in range(3)]])
    gseed = sz.randrange(10**6)
    # argument form: qubit positions handed over as numpy integers in a share of runs (what index arithmetic on arrays yields)
    return {"n": n0, "init": init, "api": api, "gseed": gseed, "history": hist, "np_ints": sz.random() < 0.3}


def simplify(case):
    if case["api"] != "func":
        c = dict(case)
        c["api"] = "func"
        yield c
    if case["init"] != "zero":
        c = dict(case)
        c["init"] = "zero"
        yield c
    if case["n"] > 1:
        c = dict(case)
        c["n"] = case["n"] - 1
        yield c
        if case["n"] > 8:
            c = dict(case)
            c["n"] = case["n"] // 2
            yield c


# ------------------------------------------------------------------------------------------------ helpers
def initial_tableau(case):
    n = case["n"]
    if case["init"] == "zero":
        return sfc.create_n_ket0_state(n)
    if case["init"] == "plus":
        return sfc.create_n_plus_state(n)
    if case["init"] == "one":
        return sfc.create_n_ket1_state(n)
    rng = random.Random(case["gseed"])
    if case["init"] == "arrays":
        # a tableau handed over as raw arrays CliffordTableau(table, phase): taken from a short random gate prefix
        base = sfc.create_n_ket0_state(n)
        for _ in range(min(3 * n, 40)):
            q = rng.randrange(n)
            g = rng.choice(["H", "P", "X", "Z", "CNOT"])
            if g == "CNOT":
                if n < 2:
                    continue
                t = rng.choice([i for i in range(n) if i != q])
                base = tr.cnot_gate(base, q, t)
            else:
                base = G1[g](base, q)
        case["_base_rows"] = gq.tableau_rows(base)
        return CliffordTableau(np.array(base.table), phase=np.array(base.phase))
    import networkx as nx
    from graphiq.backends.stabilizer.functions.rep_conversion import get_clifford_tableau_from_graph

    g = nx.Graph()
    g.add_nodes_from(range(n))
    p = rng.choice([0.2, 0.5, 0.8]) if n <= 32 else 3.0 / n
    for i in range(n):
        for j in range(i + 1, n):
            if rng.random() < p:
                g.add_edge(i, j)
    return get_clifford_tableau_from_graph(g)


def import_ref(tab):
    xs, zs, ss, ips = gq.tableau_rows(tab)
    return chp.from_bit_rows(tab.n_qubits, xs, zs, ss), ips


def v1_v2(tab):
    """binary + shapes + symplectic; returns None or a (invariant, message)"""
    n = tab.n_qubits
    T = np.asarray(tab.table)
    if T.shape != (2 * n, 2 * n) or np.asarray(tab.phase).shape != (2 * n,) or np.asarray(tab.iphase).shape != (2 * n,):
        return "V1_shape", f"n_qubits={n} table{T.shape} phase{np.asarray(tab.phase).shape} iphase{np.asarray(tab.iphase).shape}"
    if tuple(tab.shape) != (2 * n, 2 * n):
        return "V1_shape", f"tableau.shape attribute {tab.shape} for n={n}"
    if not (np.isin(T, [0, 1]).all() and np.isin(tab.phase, [0, 1]).all() and np.isin(tab.iphase, [0, 1]).all()):
        return "V1_binary", "non-binary entry in table / phase / iphase"
    X, Z = T[:, :n].astype(np.int64), T[:, n:].astype(np.int64)
    S = (X @ Z.T + Z @ X.T) % 2
    E = np.zeros((2 * n, 2 * n), dtype=np.int64)
    E[:n, n:] = np.eye(n, dtype=np.int64)
    E[n:, :n] = np.eye(n, dtype=np.int64)
    if not np.array_equal(S, E):
        bad = np.argwhere(S != E)[0]
        return "V2_symplectic", f"rows {int(bad[0])},{int(bad[1])} have symplectic product {int(S[bad[0], bad[1]])}, expected {int(E[bad[0], bad[1]])} (n={n})"
    return None


class Sys:
    """the system under test behind one of its three API surfaces"""

    def __init__(self, tab, api):
        self.api = api
        if api == "func":
            self.t = tab
        elif api == "stab":
            self.s = Stabilizer(tab)
        else:
            self.s = MixedStabilizer(tab)

    @property
    def tab(self):
        if self.api == "func":
            return self.t
        if self.api == "stab":
            return self.s.tableau
        return self.s.mixture[0][1]

    def g1(self, name, q):
        if self.api == "func":
            self.t = G1[name](self.t, q)
        else:
            {"H": self.s.apply_hadamard, "P": self.s.apply_phase, "Pd": self.s.apply_phase_dagger, "X": self.s.apply_sigmax,
             "Y": self.s.apply_sigmay, "Z": self.s.apply_sigmaz}[name](q)

    def g2(self, name, c, t):
        if self.api == "func" or name == "CY":
            if self.api == "func":
                self.t = G2[name](self.t, c, t)
            else:
                G2[name](self.tab, c, t)  # wrappers have no CY: act on the wrapped tableau (gates work in place)
        else:
            {"CNOT": self.s.apply_cnot, "CZ": self.s.apply_cz}[name](c, t)

    def mz(self, q, det):
        if self.api == "func":
            self.t, o, xp = sfc.z_measurement_gate(self.t, q, det)
            return int(o), int(xp)
        o = self.s.apply_measurement(q, det)
        if self.api == "mixed":
            o = o[0]
        return int(o), None

    def reset(self, kind, q, intended, det):
        if self.api == "func" or kind != "rz" or intended != 0:
            f = {"rz": sfc.reset_z, "rx": sfc.reset_x, "ry": sfc.reset_y}[kind]
            if self.api == "func":
                self.t = f(self.t, q, intended, det)
            else:
                f(self.tab, q, intended, det)
        else:
            self.s.reset_qubit(q, det)

    def remove(self, q, det):
        if self.api == "func":
            self.t = sfc.remove_qubit(self.t, q, det)
        else:
            self.s.remove_qubit(q, det)

    def ptrace(self, keep, det):
        n = self.tab.n_qubits
        if self.api == "func":
            self.t = sfc.partial_trace(self.t, keep, n * [2], det)
        else:
            self.s.trace_out_qubits(keep, det)


def ref_g1(ref, name, q):
    ref.gate(name, q)


def ref_g2(ref, name, c, t):
    if name == "CY":
        ref.sdg(t)
        ref.cnot(c, t)
        ref.s(t)
    else:
        ref.gate(name, c, t)


# ------------------------------------------------------------------------------------------------ run
def run_case(case):
    ctx = Ctx(ID)
    try:
        tab = initial_tableau(case)
    except Exception as e:
        ctx.probe("init_constructor_raised")
        return ctx.result(False, sample={"skipped": repr(e)})
    base_rows = case.pop("_base_rows", None)
    if base_rows is not None:
        # construction from raw arrays is an API call of its own: CliffordTableau(table, phase) must describe the state
        # given by those arrays (the arrays come from a tableau whose rows the reference accepts)
        xs, zs, ss, ips0 = base_rows
        want = chp.from_bit_rows(case["n"], xs, zs, ss)
        if not any(ips0) and want.is_valid():
            bad = v1_v2(tab)
            got, ips = import_ref(tab)
            ok_state = False
            if not bad and not any(ips):
                try:
                    ok_state = got.canon() == want.canon()
                except ArithmeticError:
                    ok_state = False
            if bad or any(ips) or not ok_state:
                ctx.violate("V5_constructor_from_arrays", -1, f"CliffordTableau(table, phase) does not describe the given stabilizers/signs: {bad or ('iphase of stabilizer rows ' + str(ips) if any(ips) else 'different stabilizer group')}", {"op": "constructor"})
                return ctx.result(False, sample={"n": case["n"], "init": case["init"]})
    bad = v1_v2(tab)
    if bad:
        ctx.probe("init_tableau_invalid")
        return ctx.result(False, sample={"skipped": bad})
    ref, ips = import_ref(tab)
    if any(ips) or not ref.is_valid():
        ctx.probe("init_tableau_invalid")
        return ctx.result(False, sample={"skipped": "initial stabilizer rows invalid"})
    sut = Sys(tab, case["api"])
    n0 = case["n"]
    if n0 >= 64:
        ctx.probe("large_n_run")
    did = {"ent": 0, "struct_signed": 0}
    step = -1

    def sign_set():
        t = sut.tab
        return bool(np.any(np.asarray(t.phase[t.n_qubits:]) != 0))

    def compare_state(step, what, candidates):
        """candidates: list of (label, ref) - the legal post-states. returns adopted ref or None (violation recorded)"""
        t = sut.tab
        bad = v1_v2(t)
        if bad:
            ctx.violate(bad[0], step, f"after {what}: {bad[1]}", {"op": what})
            return None
        got, ips = import_ref(t)
        if t.n_qubits != candidates[0][1].n:
            ctx.violate("V3_qubit_count", step, f"after {what}: tableau has {t.n_qubits} qubits, reference {candidates[0][1].n}", {"op": what})
            return None
        if any(ips):
            ctx.violate("V3_imaginary_stabilizer", step, f"after {what}: stabilizer rows carry an i phase {ips}", {"op": what})
            return None
        try:
            gc = got.canon()
        except ArithmeticError as e:
            ctx.violate("V2_symplectic", step, f"after {what}: stabilizer rows do not commute ({e})", {"op": what})
            return None
        for label, r in candidates:
            if r.canon() == gc:
                return label, r
        ctx.violate("V3_state", step, f"after {what}: stabilizer group differs from the reference state (n={t.n_qubits}); "
                    f"got rows {got.rows[:6]} expected one of {[c[1].rows[:6] for c in candidates][:2]}", {"op": what})
        return None

    bystanders = []
    Q = (lambda v: np.int64(v)) if case.get("np_ints") else (lambda v: v)
    if case.get("np_ints"):
        ctx.probe("positions_as_numpy_integers")
    for step, st in enumerate(case["history"]):
        k = st[0]
        n = ref.n
        ctx.steps += 1
        what = k
        rows_signed = sign_set()
        try:
            if k in G1:
                q = st[1] % n
                sut.g1(k, Q(q))
                ref_g1(ref, k, q)
                cands = [("", ref)]
                ctx.log(step, k, q)
            elif k in G2:
                if n < 2:
                    ctx.log(step, k, "skipped")
                    continue
                c = st[1] % n
                t = [i for i in range(n) if i != c][st[2] % (n - 1)]
                sut.g2(k, Q(c), Q(t))
                ref_g2(ref, k, c, t)
                did["ent"] += 1
                cands = [("", ref)]
                ctx.log(step, k, c, t)
            elif k == "mz":
                q, det, bit = st[1] % n, DET[st[2]], st[3]
                want = bit if det == "probabilistic" else det
                script = OutcomeScript([bit], fallback=0)
                with OwnedRNG(random.Random(0), outcomes=script, ctx=ctx):
                    o, xp = sut.mz(Q(q), det)
                ro, rrnd = ref.measure(q, want)
                ctx.fault("forced_outcome" if det != "probabilistic" else "scripted_outcome")
                ctx.probe("random_measurement" if rrnd else "deterministic_measurement")
                if not rrnd and ro == 1:
                    ctx.probe("deterministic_measurement_outcome1")
                if o != ro:
                    ctx.violate("V4_outcome", step, f"z measurement of qubit {q} returned {o}, reference {ro} (random={rrnd}, setting={det}, scripted={bit})", {"op": "mz", "random": rrnd})
                    break
                if xp is not None and bool(xp) != rrnd:
                    ctx.violate("V4_randomness_flag", step, f"z_measurement_gate reported x_p={xp} but reference says random={rrnd}", {"op": "mz"})
                    break
                consulted = len(script.taken)
                if det == "probabilistic" and consulted != (1 if rrnd else 0) or det != "probabilistic" and consulted:
                    ctx.probe("rng_consult_pattern_unexpected")  # when the RNG is consulted is not part of the property
                cands = [("", ref)]
                ctx.log(step, "mz", q, st[2], bit, o)
            elif k in ("mx", "my", "mzc"):
                q, det, bit = st[1] % n, DET[st[2]], st[3]
                want = bit if det == "probabilistic" else det
                cp = sut.tab.copy()
                script = OutcomeScript([bit], fallback=0)
                with OwnedRNG(random.Random(0), outcomes=script, ctx=ctx):
                    o = {"mx": sfc.measure_x, "my": sfc.measure_y, "mzc": sfc.measure_z}[k](cp, q, det)
                r2 = ref.copy()
                if k == "mx":
                    r2.h(q)
                elif k == "my":
                    r2.sdg(q)
                    r2.h(q)
                ro, rrnd = r2.measure(q, want)
                if int(o) != ro:
                    ctx.violate("V4_outcome", step, f"{k} of qubit {q} returned {o}, reference {ro} (random={rrnd}, setting={det})", {"op": k, "random": rrnd})
                    break
                cands = [("", ref)]
                ctx.log(step, k, q, st[2], bit, int(o))
            elif k in ("rz", "rx", "ry"):
                q, intended, det, bit = st[1] % n, st[2], DET[st[3]], st[4]
                want = bit if det == "probabilistic" else det
                script = OutcomeScript([bit], fallback=0)
                with OwnedRNG(random.Random(0), outcomes=script, ctx=ctx):
                    sut.reset(k, Q(q), intended, det)
                cands = []
                for w in ([want, 1 - want]):
                    r2 = ref.copy()
                    o, rnd = r2.reset(q, w)
                    if intended == 1:
                        r2.x(q)
                    if k in ("rx", "ry"):
                        r2.h(q)
                    if k == "ry":
                        r2.s(q)
                    cands.append((w, r2))
                    if not rnd:
                        break
                what = "reset"
                ctx.fault("forced_outcome" if det != "probabilistic" else "scripted_outcome")
                ctx.log(step, k, q, intended, st[3], bit)
            elif k == "swap":
                if n < 2:
                    continue
                a = st[1] % n
                b = [i for i in range(n) if i != a][st[2] % (n - 1)]
                if len(st) > 3 and st[3]:
                    b = a  # swapping a qubit with itself is legal and must be the identity
                    ctx.probe("swap_same_qubit")
                sut_t = sut.tab
                sfc.swap_gate(sut_t, Q(a), Q(b))
                ref.swap(a, b)
                if rows_signed:
                    did["struct_signed"] += 1
                    ctx.probe("swap_with_sign_set")
                cands = [("", ref)]
                ctx.log(step, "swap", a, b)
            elif k == "badcall":
                # fault: a call with a qubit position outside the tableau (or an impossible intended state); where the
                # library refuses it the object is used on and must be what it was.  Positions n..2n-1 are inside the
                # 2n-wide table and >=2n outside of it.  A call that is not refused ends the run unjudged.
                which, a_, off, wide = st[1], st[2] % n, st[3], st[4]
                badq = (2 * n if wide else n) + off
                ctx.fault("rejected_edit")
                try:
                    with OwnedRNG(random.Random(0), outcomes=OutcomeScript([0], fallback=0), ctx=ctx):
                        if which == "swap2":
                            sfc.swap_gate(sut.tab, Q(a_), Q(badq))
                        elif which == "swap1":
                            sfc.swap_gate(sut.tab, Q(badq), Q(a_))
                        elif which == "mz":
                            sfc.z_measurement_gate(sut.tab, Q(badq), 0)
                        elif which == "rz":
                            sfc.reset_z(sut.tab, Q(badq), 0, 0)
                        elif which == "rz_intended":
                            sfc.reset_z(sut.tab, Q(a_), 2 + off, 0)
                        elif which == "ins":
                            sfc.insert_qubit(sut.tab, Q(n + 1 + off))
                        else:
                            sfc.remove_qubit(sut.tab, Q(badq), 0)
                except core.HarnessError:
                    raise
                except Exception as e:
                    ctx.probe("out_of_range_call_refused")
                    ctx.log(step, "badcall", which, badq, type(e).__name__)
                else:
                    ctx.probe("out_of_range_call_accepted")
                    ctx.log(step, "badcall", which, badq, "accepted")
                    break
                cands = [("", ref)]
                what = "refused_call"
            elif k == "clone":
                # a second tableau object made from the current one (copy constructor / .copy());
                # it is a bystander from now on: whatever happens to the original must not reach it
                if len(bystanders) >= 2 or n > 32:
                    continue
                # (building a CliffordTableau from a StabilizerTableau re-synthesises the state through inverse_circuit:
                # that is property C11's subject and is not used here - it does not always reproduce the state)
                how = st[1] % 2
                if how == 0:
                    t2 = CliffordTableau(sut.tab)
                else:
                    t2 = sut.tab.copy()
                bystanders.append((t2, ref.copy(), step, how))
                ctx.probe("tableau_cloned")
                cands = [("", ref)]
                ctx.log(step, "clone", how)
            elif k == "circ":
                # a gate list run through run_circuit / Stabilizer.apply_circuit, forwards or reversed (= inverse)
                gl, rev = st[1], st[2]
                lst = []
                for g, x, y in gl:
                    q = x % n
                    if g in ("CNOT", "CZ"):
                        if n < 2:
                            continue
                        t = [i for i in range(n) if i != q][y % (n - 1)]
                        lst.append((g, q, t))
                    else:
                        lst.append((g, q))
                if not lst:
                    continue
                if sut.api == "stab":
                    sut.s.apply_circuit([tuple(x) for x in lst], reverse=rev)
                else:
                    out = tr.run_circuit(sut.tab, [tuple(x) for x in lst], reverse=rev)
                    if sut.api == "func":
                        sut.t = out
                seq = list(reversed(lst)) if rev else lst
                inv = {"P": "Pd", "P_dag": "P"} if rev else {"P": "P", "P_dag": "Pd"}
                for item in seq:
                    g = item[0]
                    if g in ("CNOT", "CZ"):
                        ref.gate(g, item[1], item[2])
                        did["ent"] += 1
                    elif g in ("P", "P_dag"):
                        ref.gate(inv[g], item[1])
                    elif g != "I":
                        ref.gate(g, item[1])
                ctx.probe("circuit_list_reversed" if rev else "circuit_list_forward")
                cands = [("", ref)]
                ctx.log(step, "circ", lst, rev)
            elif k in ("ins", "addq"):
                if n >= NMAX:
                    continue
                pos = n if k == "addq" else st[1] % (n + 1)
                t0 = sut.tab
                if k == "addq":
                    sfc.add_qubit(t0)
                else:
                    sfc.insert_qubit(t0, Q(pos))
                ref.insert(pos)
                if rows_signed:
                    did["struct_signed"] += 1
                    ctx.probe("insert_with_sign_set")
                what = "insert"
                cands = [("", ref)]
                ctx.log(step, k, pos)
            elif k == "rem":
                if n < 2:
                    continue
                q, det, bit = st[1] % n, DET[st[2]], st[3]
                want = bit if det == "probabilistic" else det
                ent = ref.entangled(q)
                zs = ref.z_sign(q)
                if zs is None and not ent:
                    pass
                ctx.probe("remove_entangled" if ent else "remove_unentangled")
                if not ent and zs == 1:
                    ctx.probe("remove_unentangled_in_one")
                t0 = sut.tab
                if zs is not None:
                    dx = np.asarray(t0.destabilizer_x)[:, q]
                    if int(dx.sum()) > 1:
                        ctx.probe("remove_deterministic_multi_destab")
                script = OutcomeScript([bit], fallback=0)
                with OwnedRNG(random.Random(0), outcomes=script, ctx=ctx):
                    sut.remove(Q(q), det)
                cands = []
                for w in ([want, 1 - want]):
                    r2 = ref.copy()
                    o, rnd = r2.measure(q, w)
                    r2.remove_measured(q)
                    cands.append((w, r2))
                    if not rnd:
                        break
                if rows_signed:
                    did["struct_signed"] += 1
                what = "remove_entangled" if ent else "remove_unentangled"
                ctx.fault("forced_outcome" if det != "probabilistic" else "scripted_outcome")
                ctx.log(step, "rem", q, st[2], bit)
            elif k == "tensor":
                if n >= NMAX - 2:
                    continue
                kind = st[1] % 6
                if kind >= 4:
                    # an operand with a history of its own (gates and a random-outcome measurement: its destabilizers
                    # then carry i-phases), 2-3 qubits
                    rr = random.Random(st[1] * 7919 + step)
                    m2 = 2 + kind % 2
                    t2 = sfc.create_n_ket0_state(m2)
                    for _ in range(8):
                        q2 = rr.randrange(m2)
                        g2 = rr.choice(["H", "P", "H", "CNOT", "M"])
                        if g2 == "CNOT":
                            t2 = tr.cnot_gate(t2, q2, (q2 + 1) % m2)
                        elif g2 == "M":
                            with OwnedRNG(random.Random(0), outcomes=OutcomeScript([rr.randrange(2)], fallback=0), ctx=ctx):
                                t2, _, _ = sfc.z_measurement_gate(t2, q2, "probabilistic")
                        else:
                            t2 = G1[g2](t2, q2)
                    ctx.probe("tensor_operand_with_history")
                elif kind == 0:
                    t2 = sfc.create_n_ket0_state(1)
                elif kind == 1:
                    t2 = sfc.create_n_plus_state(2)
                elif kind == 2:
                    t2 = sfc.create_n_ket1_state(1)
                else:
                    t2 = sfc.create_n_plus_state(2)
                    t2 = tr.control_z_gate(t2, 0, 1)
                    t2 = tr.z_gate(t2, 0)
                r2, ips2 = import_ref(t2)
                if any(ips2) or v1_v2(t2) or not r2.is_valid():
                    ctx.probe("tensor_operand_invalid_skipped")
                    continue
                t0 = sut.tab
                out = sfc.tensor([t0, t2])
                if out is not t0:
                    if sut.api == "func":
                        sut.t = out
                ref.tensor(r2)
                ctx.probe("tensor_done")
                if rows_signed:
                    did["struct_signed"] += 1
                cands = [("", ref)]
                ctx.log(step, "tensor", kind)
            elif k == "ptrace":
                if n < 2:
                    continue
                ndrop = min(st[2], n - 1)
                rng = random.Random(st[1])
                drop = sorted(rng.sample(range(n), ndrop), reverse=True)
                keep = [i for i in range(n) if i not in drop]
                det, bits = DET[st[3]], st[4]
                script = OutcomeScript(bits, fallback=0)
                with OwnedRNG(random.Random(0), outcomes=script, ctx=ctx):
                    sut.ptrace(keep, det)
                # all legal branch combinations
                cands = []
                frontier = [((), ref.copy())]
                for q in drop:
                    nxt = []
                    for lab, r in frontier:
                        for w in (0, 1):
                            r2 = r.copy()
                            o, rnd = r2.measure(q, w)
                            r2.remove_measured(q)
                            nxt.append((lab + (o,), r2))
                            if not rnd:
                                break
                    frontier = nxt
                cands = frontier
                ctx.probe("ptrace_done")
                if rows_signed:
                    did["struct_signed"] += 1
                what = "partial_trace"
                ctx.fault("forced_outcome" if det != "probabilistic" else "scripted_outcome", len(drop))
                ctx.log(step, "ptrace", keep, st[3], bits)
            else:
                raise core.HarnessError(f"unknown step {st}")
        except core.HarnessError:
            raise
        except Exception as e:
            ctx.violate("unexpected_exception", step, f"{k}: {type(e).__name__}: {e}", {"op": k, "exc": type(e).__name__})
            break
        # large n: the O(n^3) group comparison only every 4th step (and at the end); V1/V2 every step
        if ref.n > 64 and step % 4 != 3 and step != len(case["history"]) - 1 and len(cands) == 1:
            ref = cands[0][1]
            bad = v1_v2(sut.tab)
            if bad:
                ctx.violate(bad[0], step, f"after {what}: {bad[1]}", {"op": what})
                break
            if sut.tab.n_qubits != ref.n:
                ctx.violate("V3_qubit_count", step, f"after {what}: tableau has {sut.tab.n_qubits} qubits, reference {ref.n}", {"op": what})
                break
            continue
        res = compare_state(step, what, cands)
        if res is None:
            break
        label, ref = res
        stop = False
        for (t2, r2, at, how) in bystanders:
            bad2 = v1_v2(t2)
            ok2 = False
            if not bad2:
                g2_, ips2 = import_ref(t2)
                try:
                    ok2 = not any(ips2) and g2_.canon() == r2.canon()
                except ArithmeticError:
                    ok2 = False
            if bad2 or not ok2:
                ctx.violate("V6_bystander_changed", step, f"a tableau object created at step {at} (way {how}) from the tableau under test changed when {what} was applied to the original: {bad2 or 'different state'}", {"op": what, "how": how})
                stop = True
                break
        if stop:
            break
        if len(cands) > 1:
            forced = cands[0][0]
            if label != forced:
                ctx.probe("hidden_branch_not_the_forced_one")
        # second, independent oracle for tiny n: the projector of graphiq's rows equals that of the reference rows
        if ref.n <= 3:
            xs, zs, ss, _ = gq.tableau_rows(sut.tab)
            p1 = sv.projector_from_rows(ref.n, list(zip(xs, zs, ss)))
            p2 = sv.projector_from_rows(ref.n, ref.bits())
            if not np.allclose(p1, p2, atol=1e-9):
                raise core.HarnessError("CHP canonical forms agree but projectors differ: reference bug")
    nontrivial = did["ent"] >= 1 and did["struct_signed"] >= 1
    return ctx.result(nontrivial, sample={"n": case["n"], "init": case["init"], "api": case["api"], "history": case["history"][:10]})

"""long-lived interpreter started with another PYTHONHASHSEED; executes C19 cases sent as JSON lines on stdin"""
import json
import os
import sys

HERE = os.path.dirname(os.path.dirname(os.path.abspath(__file__)))
sys.path.insert(0, HERE)
sys.path.insert(0, os.environ.get("GRAPHIQ_ROOT", "/repo"))
import warnings

warnings.filterwarnings("ignore")
real_stdout = sys.stdout
sys.stdout = open(os.devnull, "w")  # graphiq prints in places; keep the protocol channel clean
from sim.props import c19  # noqa: E402

for line in sys.stdin:
    line = line.strip()
    if not line:
        continue
    req = json.loads(line)
    try:
        out = c19.execute(req["case"], req["pollution"])
    except Exception as e:  # harness-level failure inside the server
        out = {"exc": f"SERVER {type(e).__name__}: {e}", "exc_type": "ServerError", "snaps": [], "draws": 0}
    real_stdout.write(json.dumps({"hashseed": os.environ.get("PYTHONHASHSEED"), "out": out}, default=str) + "\n")
    real_stdout.flush()

"""
Deterministic-simulation engine shared by all property checks.

One integer (VERIF_SEED) decides everything: run i of property P has run_seed = H(VERIF_SEED, P, i); inside a
run every independent stream is random.Random(H(run_seed, name)).  A *case* is a JSON-able dict produced by
`gen_case(run_seed, tier)`; `run_case(case)` is a pure function of the case and the code under test and returns a
Result.  Replay = run_case(case) in a fresh interpreter.  Logging never draws from a PRNG or reads a clock.
"""
import faulthandler
import hashlib
import json
import os
import random
import signal
import sys
import time
import traceback
from collections import Counter
from concurrent.futures import ProcessPoolExecutor, as_completed
import multiprocessing as mp

VERIF_DIR = os.path.dirname(os.path.dirname(os.path.abspath(__file__)))


# ----------------------------------------------------------------------------------------------- seeds / digests
def H(*parts) -> int:
    s = "/".join(str(p) for p in parts).encode()
    return int.from_bytes(hashlib.sha256(s).digest()[:8], "big")


def stream(run_seed, name) -> random.Random:
    return random.Random(H(run_seed, name))


def canon(obj):
    """canonical JSON text (sorted keys, no whitespace); tuples become lists, numpy scalars become python"""
    return json.dumps(obj, sort_keys=True, separators=(",", ":"), default=_default)


def _default(o):
    try:
        import numpy as np

        if isinstance(o, np.integer):
            return int(o)
        if isinstance(o, np.floating):
            return float(o)
        if isinstance(o, np.ndarray):
            return o.tolist()
        if isinstance(o, np.bool_):
            return bool(o)
    except Exception:
        pass
    if isinstance(o, (set, frozenset)):
        return sorted(o, key=str)
    return str(o)


def digest_of(obj) -> str:
    return hashlib.sha256(canon(obj).encode()).hexdigest()[:16]


# ----------------------------------------------------------------------------------------------- run context
class HarnessError(Exception):
    """a bug or limit of the verification machinery itself; never reported as a VIOLATION"""


class HarnessTimeout(HarnessError):
    pass


class Ctx:
    """per-run recorder: event log (-> digest), fault counters, rare-branch probes, violations"""

    def __init__(self, prop):
        self.prop = prop
        self.events = []
        self.faults = Counter()
        self.probes = Counter()
        self.violations = []
        self.steps = 0
        self.flags = set()

    def log(self, *ev):
        self.events.append(ev)

    def fault(self, kind, n=1):
        self.faults[kind] += n

    def probe(self, name, n=1):
        self.probes[name] += n

    def violate(self, invariant, step, detail, sig=None):
        """record a violation. `sig` is a small dict naming the failing call site / input class; it is what an entry
        of known_findings.jsonl is matched against."""
        self.violations.append(
            {
                "invariant": invariant,
                "step": step,
                "detail": str(detail)[:600],
                "sig": sig or {},
            }
        )

    def result(self, nontrivial, sample=None):
        return {
            "digest": digest_of(self.events),
            "violations": self.violations,
            "nontrivial": bool(nontrivial),
            "faults": dict(self.faults),
            "probes": dict(self.probes),
            "steps": self.steps,
            "sample": sample,
        }


class alarm:
    """wall-clock watchdog around one library call / one run. Expiry is a harness timeout, never a violation."""

    def __init__(self, seconds, what=""):
        self.seconds = seconds
        self.what = what

    def _fire(self, signum, frame):
        raise HarnessTimeout(f"watchdog {self.seconds}s expired in {self.what}")

    def __enter__(self):
        self.old = signal.signal(signal.SIGALRM, self._fire)
        signal.setitimer(signal.ITIMER_REAL, self.seconds)

    def __exit__(self, *a):
        signal.setitimer(signal.ITIMER_REAL, 0)
        signal.signal(signal.SIGALRM, self.old)
        return False


# ----------------------------------------------------------------------------------------------- property registry
def load_prop(pid):
    import importlib

    return importlib.import_module(f"sim.props.{pid.lower()}")


def run_one(mod, case, timeout_s=None):
    """run one case under the watchdog; returns the Result dict (harness errors propagate)"""
    import contextlib
    import io

    t = timeout_s or getattr(mod, "RUN_TIMEOUT_S", 120)
    # graphiq prints debug output in places (e.g. the mixed-stabilizer ClassicalCNOT branch): keep our stdout clean
    with alarm(t, f"{mod.ID} run"), contextlib.redirect_stdout(io.StringIO()):
        return mod.run_case(case)


def run_isolated(mod, case):
    """run one case in a forked child so that no module-level state of the library (caches, mutable default arguments,
    class attributes, global RNG state) can leak from one run into the next: one seed = one repeatable execution.
    Properties whose runs manage their own helper processes set ISOLATE = False."""
    if not getattr(mod, "ISOLATE", True):
        return run_one(mod, case)
    import pickle
    import select

    r, w = os.pipe()
    pid = os.fork()
    if pid == 0:  # child
        code = 0
        try:
            os.close(r)
            try:
                payload = ("ok", run_one(mod, case))
            except HarnessError as e:
                payload = ("harness", repr(e))
            except BaseException as e:  # noqa
                payload = ("crash", "".join(traceback.format_exception(type(e), e, e.__traceback__))[-1500:])
            with os.fdopen(w, "wb") as f:
                pickle.dump(payload, f)
        except BaseException:
            code = 1
        finally:
            os._exit(code)
    os.close(w)
    limit = getattr(mod, "RUN_TIMEOUT_S", 120) + 60
    buf = b""
    t0 = time.time()
    with os.fdopen(r, "rb") as f:
        while True:
            left = limit - (time.time() - t0)
            if left <= 0:
                try:
                    os.kill(pid, signal.SIGKILL)
                except OSError:
                    pass
                os.waitpid(pid, 0)
                raise HarnessTimeout(f"isolated run exceeded {limit}s")
            ready, _, _ = select.select([f], [], [], min(left, 5))
            if ready:
                chunk = f.read()
                buf += chunk
                break
    os.waitpid(pid, 0)
    if not buf:
        raise HarnessError("isolated run died without a result")
    kind, val = pickle.loads(buf)
    if kind == "ok":
        return val
    if kind == "harness":
        raise HarnessError(val)
    raise RuntimeError(val)


# ----------------------------------------------------------------------------------------------- batch runner
def _worker(args):
    pid, verif_seed, tier, indices, keep_samples = args
    faulthandler.dump_traceback_later(900, exit=True)
    mod = load_prop(pid)
    out = []
    for i in indices:
        run_seed = H(verif_seed, pid, i)
        case = None
        try:
            case = mod.gen_case(run_seed, tier)
            res = run_isolated(mod, case)
        except HarnessError as e:
            out.append({"i": i, "run_seed": run_seed, "harness_error": repr(e) + " case=" + canon(case)[:1500]})
            continue
        except Exception as e:  # a crash of the harness itself (graphiq exceptions are caught inside run_case)
            out.append(
                {
                    "i": i,
                    "run_seed": run_seed,
                    "harness_error": "".join(
                        traceback.format_exception(type(e), e, e.__traceback__)
                    )[-1500:],
                }
            )
            continue
        rec = {
            "i": i,
            "run_seed": run_seed,
            "digest": res["digest"],
            "nontrivial": res["nontrivial"],
            "faults": res["faults"],
            "probes": res["probes"],
            "steps": res["steps"],
            "nviol": len(res["violations"]),
        }
        if res["violations"]:
            rec["violations"] = res["violations"]
            rec["case"] = case
        if i in keep_samples:
            rec["sample"] = res.get("sample") or case
        out.append(rec)
    faulthandler.cancel_dump_traceback_later()
    return out


def run_batch(pid, tier, verif_seed, n_runs, budget_s, workers=None, chunk=None):
    """returns (records in index order, truncated flag, wall seconds)"""
    workers = workers or int(os.environ.get("VERIF_WORKERS", min(16, os.cpu_count() or 1)))
    mod = load_prop(pid)
    chunk = chunk or getattr(mod, "CHUNK", {}).get(tier, 8)
    keep = {0, 1, 2}
    idx_chunks = [list(range(a, min(a + chunk, n_runs))) for a in range(0, n_runs, chunk)]
    t0 = time.time()
    records = []
    truncated = False
    if workers <= 1:
        for ch in idx_chunks:
            if time.time() - t0 > budget_s:
                truncated = True
                break
            records.extend(_worker((pid, verif_seed, tier, ch, keep)))
    else:
        ctx = mp.get_context("fork")
        with ProcessPoolExecutor(max_workers=workers, mp_context=ctx) as ex:
            pending = {}
            it = iter(idx_chunks)
            done_feeding = False

            def feed():
                nonlocal done_feeding, truncated
                while len(pending) < workers * 2 and not done_feeding:
                    if time.time() - t0 > budget_s:
                        truncated = True
                        done_feeding = True
                        break
                    try:
                        ch = next(it)
                    except StopIteration:
                        done_feeding = True
                        break
                    f = ex.submit(_worker, (pid, verif_seed, tier, ch, keep))
                    pending[f] = ch

            feed()
            while pending:
                for f in as_completed(list(pending)):
                    ch = pending.pop(f)
                    try:
                        records.extend(f.result())
                    except Exception as e:
                        raise HarnessError(f"worker died on chunk {ch[:3]}...: {e!r}")
                    break
                feed()
    records.sort(key=lambda r: r["i"])
    # with truncation, keep only the longest fully-executed prefix so that evidence is a function of the count
    if truncated:
        have = {r["i"] for r in records}
        k = 0
        while k in have:
            k += 1
        records = [r for r in records if r["i"] < k]
    return records, truncated, time.time() - t0


# ----------------------------------------------------------------------------------------------- shrinking
def same_failure(res, want_inv):
    return any(v["invariant"] == want_inv for v in res["violations"])


def shrink(mod, case, want_inv, budget_s=90, max_evals=3000):
    """ddmin over case['history'] (if present) + property-specific simplifications; keeps the same invariant id"""
    t0 = time.time()
    evals = 0

    def fails(c):
        nonlocal evals
        evals += 1
        try:
            r = run_isolated(mod, c)
        except Exception:
            return False
        return same_failure(r, want_inv)

    def out_of_budget():
        return time.time() - t0 > budget_s or evals > max_evals

    best = case
    key = getattr(mod, "SHRINK_KEY", "history")
    if isinstance(best.get(key), list):
        hist = list(best[key])
        n = 2
        while len(hist) >= 2 and not out_of_budget():
            size = max(1, len(hist) // n)
            reduced = False
            for start in range(0, len(hist), size):
                cand_hist = hist[:start] + hist[start + size :]
                cand = dict(best)
                cand[key] = cand_hist
                if fails(cand):
                    hist = cand_hist
                    best = cand
                    n = max(n - 1, 2)
                    reduced = True
                    break
                if out_of_budget():
                    break
            if not reduced:
                if size == 1:
                    break
                n = min(n * 2, len(hist))
    simp = getattr(mod, "simplify", None)
    if simp:
        progress = True
        while progress and not out_of_budget():
            progress = False
            for cand in simp(best):
                if out_of_budget():
                    break
                if fails(cand):
                    best = cand
                    progress = True
                    break
    return best, evals


# ----------------------------------------------------------------------------------------------- known findings
def load_findings(pid):
    path = os.path.join(VERIF_DIR, "known_findings.jsonl")
    out = []
    if os.path.exists(path):
        for line in open(path):
            line = line.strip()
            if not line or line.startswith("#"):
                continue
            try:
                rec = json.loads(line)
            except Exception:
                continue  # "fixed: ..." plain lines suppress nothing
            if rec.get("property") == pid and rec.get("status") == "open":
                out.append(rec)
    return out


def covered_by(finding, violation):
    if finding.get("invariant") != violation["invariant"]:
        return False
    sig = violation.get("sig") or {}
    for k, v in (finding.get("sig") or {}).items():
        if sig.get(k) != v:
            return False
    return True


# ----------------------------------------------------------------------------------------------- evidence
def write_evidence(pid, tier, verif_seed, mod, records, truncated, wall, n_target, n_viol, known_hits, extra=None):
    evals = len(records)
    ok = [r for r in records if "digest" in r]
    nontriv = {r["digest"] for r in ok if r["nontrivial"]}
    faults = Counter()
    probes = Counter()
    steps = 0
    for r in ok:
        faults.update(r["faults"])
        probes.update(r["probes"])
        steps += r["steps"]
    samples = [r["sample"] for r in ok if "sample" in r][:3]
    cov = {
        "evaluations": evals,
        "distinct_nontrivial": len(nontriv),
        "distinct_digests": len({r["digest"] for r in ok}),
        "rule": mod.RULE,
        "samples": samples,
        "runs_target": n_target,
        "truncated_by_budget": truncated,
        "steps_total": steps,
        "runs_per_hour": int(evals / wall * 3600) if wall > 0 else 0,
        "steps_per_hour": int(steps / wall * 3600) if wall > 0 else 0,
        "simulated_time": "n/a - the code under test has no clock, timers or deadlines; logical steps are reported",
        "faults_fired": dict(sorted(faults.items())),
        "probes": dict(sorted(probes.items())),
        "probes_at_zero": sorted(p for p in getattr(mod, "PROBES", []) if probes.get(p, 0) == 0),
        "real_components": getattr(mod, "REAL", []),
        "stub_components": getattr(mod, "STUB", []),
        "known_findings_hit": known_hits,
        "harness_errors": sum(1 for r in records if "harness_error" in r),
    }
    if extra:
        cov.update(extra)
    ev = {
        "property_id": pid,
        "tier": tier,
        "seed": int(verif_seed),
        "level": "exploration",
        "coverage": cov,
        "assumptions": getattr(mod, "ASSUMPTIONS", []),
        "wall_s": round(wall, 2),
        "violations": n_viol,
    }
    evdir = os.environ.get("VERIF_EVIDENCE_DIR") or os.path.join(VERIF_DIR, "evidence")  # redirected for mutant runs
    os.makedirs(evdir, exist_ok=True)
    path = os.path.join(evdir, f"{pid}.json")
    tmp = path + ".tmp"
    with open(tmp, "w") as f:
        json.dump(ev, f, indent=1, default=_default, sort_keys=True)
    os.replace(tmp, path)
    return path

"""outcome-tree exploration shared by the properties that quantify over measurement outcomes"""
import random


def sweep(run, max_leaves=16, extra_samples=8, seed=0):
    """
    run(bits, fallback) -> list of the random-outcome bits actually used (scripted prefix + fallback answers), or None
    to abort.  Explores every leaf of the binary outcome tree breadth-first (each leaf exactly once); if the tree has
    more than max_leaves leaves, stops enumerating and draws extra_samples seeded random leaves instead.
    returns (leaves_run, complete: bool, aborted: bool)
    """
    queue = [[]]
    leaves = 0
    while queue:
        bits = queue.pop(0)
        used = run(bits, 0)
        if used is None:
            return leaves, False, True
        leaves += 1
        for i in range(len(bits), len(used)):
            queue.append(list(used[:i]) + [1])
        if leaves >= max_leaves and queue:
            rng = random.Random(seed)
            for _ in range(extra_samples):
                used = run([], random.Random(rng.randrange(10**9)))
                if used is None:
                    return leaves, False, True
                leaves += 1
            return leaves, False, False
    return leaves, True, False

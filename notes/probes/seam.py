import sys, warnings, math, time
warnings.filterwarnings("ignore")
import numpy as np, numpy, networkx as nx
from graphiq.circuit.circuit_dag import CircuitDAG
from graphiq.circuit import ops
from graphiq.backends.stabilizer.compiler import StabilizerCompiler
from graphiq.backends.density_matrix.compiler import DensityMatrixCompiler
log=[]
real_randint=numpy.random.randint; real_choice=numpy.random.choice
sched=[1,0,1,1]
def site():
    f=sys._getframe(2)
    while f and '/repo/graphiq' not in f.f_code.co_filename: f=f.f_back
    return (f.f_code.co_filename.split('graphiq/')[-1], f.f_code.co_name) if f else ('ext','?')
def fake_randint(*a,**k):
    s=site(); v=sched.pop(0) if s[1]=='z_measurement_gate' else real_randint(*a,**k); log.append((s,a,v)); return v
def fake_choice(a,*args,**k):
    s=site(); p=k.get('p')
    if s[1]=='apply_measurement':
        v=int(np.argmax(p)) if max(p)>1-1e-9 else sched.pop(0)
    else: v=real_choice(a,*args,**k)
    log.append((s,None if p is None else tuple(np.round(p,6)),v)); return v
numpy.random.randint=fake_randint; numpy.random.choice=fake_choice
c=CircuitDAG(n_emitter=1,n_photon=1,n_classical=2)
c.add(ops.Hadamard(register=0,reg_type='e'))
c.add(ops.CNOT(control=0,control_type='e',target=0,target_type='p'))
c.add(ops.MeasurementZ(register=0,reg_type='e',c_register=0))
c.add(ops.Hadamard(register=0,reg_type='p'))
c.add(ops.MeasurementZ(register=0,reg_type='p',c_register=1))
class Probe(StabilizerCompiler):
    def compile_one_gate(self,state,op,n,q,creg):
        self.creg=creg; return super().compile_one_gate(state,op,n,q,creg)
class ProbeD(DensityMatrixCompiler):
    def compile_one_gate(self,state,op,n,q,creg):
        self.creg=creg; return super().compile_one_gate(state,op,n,q,creg)
p=Probe(); s=p.compile(c); print(p.creg, s.rep_data.data.stabilizer_to_labels(), s.rep_data.data.phase)
sched[:]=[1,0]
p=ProbeD(); s=p.compile(c); print(p.creg, np.round(np.real(np.diag(s.rep_data.data)),3))
for l in log: print(l)
# det=0 float issue
c=CircuitDAG(n_emitter=1,n_photon=0,n_classical=1)
for g in [ops.Hadamard,ops.SigmaZ,ops.Hadamard]: c.add(g(register=0,reg_type='e'))
c.add(ops.MeasurementZ(register=0,reg_type='e',c_register=0))
d=ProbeD(); d.measurement_determinism=0; s=d.compile(c); print("det0 after X:",d.creg, s.rep_data.data)

import sys, warnings, math, random, itertools
warnings.filterwarnings("ignore")
import numpy as np, networkx as nx
np.math=math
from graphiq.utils.relabel_module import iso_finder, lc_orbit_finder, relabel, get_relabel_map, depth_first_orbit, linear_partial_orbit, rgs_orbit_finder
from graphiq.benchmarks.graph_states import repeater_graph_states
def lc(g,v):
    h=g.copy(); nb=list(g.neighbors(v))
    for a,b in itertools.combinations(nb,2):
        if h.has_edge(a,b): h.remove_edge(a,b)
        else: h.add_edge(a,b)
    return h
def key(g,n): return tuple(nx.to_numpy_array(g,nodelist=range(n)).astype(int).flatten())
def orbit(g):
    n=g.number_of_nodes(); seen={key(g,n)}; fr=[g]
    while fr:
        nf=[]
        for h in fr:
            for v in range(n):
                k=lc(h,v); kk=key(k,n)
                if kk not in seen: seen.add(kk); nf.append(k)
        fr=nf
    return seen
import faulthandler; faulthandler.dump_traceback_later(200,exit=True)
bad={}
for seed in range(int(sys.argv[1])):
    rng=random.Random(seed); n=rng.randint(2,5); g=nx.gnp_random_graph(n,rng.uniform(.3,.9),seed=seed)
    A=nx.to_numpy_array(g).astype(int)
    # relabel
    p=list(range(n)); rng.shuffle(p); B=relabel(A,np.array(p))
    okr=all(B[p[u],p[v]]==A[u,v] for u in range(n) for v in range(n))
    okr2=all(B[u,v]==A[p[u],p[v]] for u in range(n) for v in range(n))
    if not okr: bad.setdefault(("relabel_dir", okr2),(seed,p))
    n_iso=rng.randint(1,5)
    kw=dict(rel_inc_thresh=rng.choice([0.05,0.2,0.5]),allow_exhaustive=rng.random()<.5,sort_emit=rng.random()<.3,label_map=rng.random()<.3,seed=rng.choice([None,seed]))
    try:
        out=iso_finder(A,n_iso,**kw)
        if isinstance(out,tuple): adjs,maps=out
        else: adjs,maps=out,None
        if len(adjs)>n_iso: bad.setdefault("iso_count",(seed,len(adjs),n_iso,kw))
        if not np.array_equal(adjs[0],A): bad.setdefault("iso_first",(seed,kw))
        ks=[tuple(np.asarray(a).astype(int).flatten()) for a in adjs]
        if len(set(ks))!=len(ks): bad.setdefault("iso_dup",(seed,kw))
        for a in adjs:
            if not nx.is_isomorphic(nx.from_numpy_array(np.asarray(a)),g): bad.setdefault("iso_noniso",(seed,kw))
        if maps:
            for a,m in zip(adjs,maps):
                mm={k:v for k,v in m.items() if k!=-1}
                h=nx.from_numpy_array(np.asarray(a))
                if not all(h.has_edge(mm[u],mm[v]) for u,v in g.edges()) : bad.setdefault("iso_map",(seed,kw,m))
    except Exception as e: bad.setdefault(("iso_exc",type(e).__name__),(seed,n,n_iso,kw,repr(e)[:100]))
    if nx.is_connected(g) and n>=2:
        orb=orbit(g)
        for kw2 in [dict(orbit_size_thresh=8),dict(with_iso=True,orbit_size_thresh=8),dict(rand=True,orbit_size_thresh=8),dict(rand=True,with_iso=True,orbit_size_thresh=8),dict(rand=True,with_iso=True,rep_allowed=True,orbit_size_thresh=6),dict(comp_depth=2,orbit_size_thresh=3)]:
            try:
                np.random.seed(seed); L=lc_orbit_finder(g,**kw2)
                for h in L:
                    if key(h,n) not in orb: bad.setdefault(("orbit_out",str(kw2)),(seed,))
                if not kw2.get('rep_allowed'):
                    ks=[key(h,n) for h in L]
                    if len(set(ks))!=len(ks): bad.setdefault(("orbit_dup",str(kw2)),(seed,sorted(g.edges())))
            except Exception as e: bad.setdefault(("orbit_exc",str(kw2),type(e).__name__),(seed,repr(e)[:100]))
        try:
            L=depth_first_orbit(g)
            for h in L:
                if key(h,n) not in orb: bad.setdefault("dfo_out",(seed,))
            ks=[key(h,n) for h in L]
            if len(set(ks))!=len(ks): bad.setdefault("dfo_dup",(seed,sorted(g.edges())))
        except Exception as e: bad.setdefault(("dfo_exc",type(e).__name__),(seed,repr(e)[:100]))
for n in range(3,8):
    g=nx.path_graph(n); orb=orbit(g); L=linear_partial_orbit(g)
    ks=[key(h,n) for h in L]
    print("linear",n,len(L),len(set(ks)),all(k in orb for k in ks))
for m in range(2,4):
    g=repeater_graph_states(m); n=g.number_of_nodes(); g=nx.convert_node_labels_to_integers(g); orb=orbit(g); L=rgs_orbit_finder(g); ks=[key(h,n) for h in L]
    print("rgs",n,len(L),len(set(ks)),all(k in orb for k in ks),len(orb))
for k,v in bad.items(): print(k,v)
print(len(bad))

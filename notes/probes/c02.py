import sys, warnings, random, itertools
warnings.filterwarnings("ignore")
import numpy as np, networkx as nx
exec(open('/verif/notes/probes/c07.py').read().split("bad={}")[0])
from graphiq.solvers.time_reversed_solver import TimeReversedSolver
from graphiq.backends.stabilizer.compiler import StabilizerCompiler
from graphiq.state import QuantumState
from graphiq.metrics import Infidelity
from graphiq.circuit import ops
def graph_state(g,n):
    psi=np.ones(2**n,complex)/np.sqrt(2**n)
    for a,b in g.edges(): psi=cu(n,a,b,Z)@psi
    return psi
bad={}; tot=0
for seed in range(int(sys.argv[1])):
    rng=random.Random(seed); n=rng.randint(1,6)
    g=nx.gnp_random_graph(n,rng.uniform(.2,.9),seed=seed)
    iso=[v for v in g if g.degree(v)==0]
    conn=nx.is_connected(g) if n>0 else True
    perm=list(range(n)); rng.shuffle(perm); g=nx.relabel_nodes(g,dict(zip(range(n),perm))); h=nx.Graph(); h.add_nodes_from(range(n)); h.add_edges_from(g.edges()); g=h
    rep=rng.choice(["g","s"])
    target=QuantumState(g,rep_type="g")
    if rep=="s": target.convert_representation("s")
    comp=StabilizerCompiler(); comp.measurement_determinism=rng.choice([0,1])
    try:
        s=TimeReversedSolver(target=target,metric=Infidelity(target),compiler=comp); s.solve()
    except Exception as e:
        bad.setdefault(("exc",type(e).__name__,"connected" if conn else "disconnected"),(seed,n,sorted(g.edges()))); continue
    score,c=s.result; tot+=1
    ne=c.n_emitters; N=n+ne
    psi=np.kron(graph_state(g,n),np.eye(2**ne)[0]) if ne>0 else graph_state(g,n)
    rho_ref=np.outer(psi,psi.conj())
    nm=sum(isinstance(o,ops.MeasurementCNOTandReset) for o in c.sequence())
    for det in (0,1):
        c2=StabilizerCompiler(); c2.measurement_determinism=det
        st=c2.compile(c)
        if not np.allclose(proj_from_tab(st.rep_data.data),rho_ref,atol=1e-8):
            bad.setdefault(("state",det,"conn" if conn else "disc"),(seed,n,sorted(g.edges()),ne,nm))
    if abs(score)>1e-9: bad.setdefault(("score",),(seed,n,sorted(g.edges()),score))
print(tot)
for k,v in bad.items(): print(k,v)

import sys, warnings, random, copy
warnings.filterwarnings("ignore")
import numpy as np
from graphiq.circuit.circuit_dag import CircuitDAG
from graphiq.circuit import ops
import graphiq.noise.noise_models as nm
from graphiq.backends.stabilizer.compiler import StabilizerCompiler
from graphiq.backends.density_matrix.compiler import DensityMatrixCompiler
G1=[ops.Identity,ops.Hadamard,ops.Phase,ops.PhaseDagger,ops.SigmaX,ops.SigmaY,ops.SigmaZ]
def rand_circ(rng):
    ne=rng.randint(1,2); np_=rng.randint(1,2); nc=1
    regs=[('e',i) for i in range(ne)]+[('p',i) for i in range(np_)]
    c=CircuitDAG(n_emitter=ne,n_photon=np_,n_classical=nc)
    for s in range(rng.randint(2,10)):
        r=rng.random()
        if r<0.5:
            t,q=rng.choice(regs)
            if rng.random()<0.3: c.add(ops.OneQubitGateWrapper([rng.choice(G1) for _ in range(rng.randint(1,3))],register=q,reg_type=t))
            else: c.add(rng.choice(G1)(register=q,reg_type=t))
        elif r<0.8:
            a,b=rng.sample(regs,2); c.add(rng.choice([ops.CNOT,ops.CZ])(control=a[1],control_type=a[0],target=b[1],target_type=b[0]))
        else:
            a,b=rng.sample(regs,2); c.add(rng.choice([ops.ClassicalCNOT,ops.MeasurementCNOTandReset])(control=a[1],control_type=a[0],target=b[1],target_type=b[0],c_register=0))
    return c
def fp(c):
    c=copy.deepcopy(c); out=[c.to_openqasm()]
    for noise in (False,True):
        for det in (0,1):
            d=DensityMatrixCompiler(); d.measurement_determinism=det; d.noise_simulation=noise
            try: out.append(np.round(d.compile(c).rep_data.data,9).tobytes())
            except Exception as e: out.append("EXC:"+type(e).__name__)
    return out
def noise_map(rng):
    m={"e":{}, "p":{}, "ee":{}, "ep":{}, "pe":{}, "pp":{}}
    for k in m:
        for name in (["Hadamard","SigmaX","Phase","Identity"] if len(k)==1 else ["CNOT","CZ"]):
            if rng.random()<0.5: m[k][name]=rng.choice([nm.DepolarizingNoise(0.1),nm.PauliError("X"),nm.PauliError("Z")])
    return m
bad={}
for seed in range(int(sys.argv[1])):
    rng=random.Random(seed); c=rand_circ(rng); hist=[]
    for step in range(6):
        before=fp(c)
        k=rng.choice(["compile_s","compile_d","compile_dn","assign_empty","assign_map","copy","metricless"])
        hist.append(k)
        try:
            if k=="compile_s": x=StabilizerCompiler(); x.measurement_determinism=1; x.compile(c)
            elif k=="compile_d": x=DensityMatrixCompiler(); x.measurement_determinism=1; x.compile(c)
            elif k=="compile_dn": x=DensityMatrixCompiler(); x.measurement_determinism=1; x.noise_simulation=True; x.compile(c)
            elif k=="assign_empty":
                c2=c.assign_noise({"e":{}, "p":{}, "ee":{}, "ep":{}, "pe":{}, "pp":{}})
                if fp(c2)[1]!=before[1] or fp(c2)[2]!=before[2]: bad.setdefault(("assign_empty_state",),(seed,hist[:]))
            elif k=="assign_map": c2=c.assign_noise(noise_map(rng))
            elif k=="copy":
                c2=c.copy()
                if fp(c2)!=before: bad.setdefault(("copy_differs",),(seed,hist[:]))
        except Exception as e:
            bad.setdefault((k,"exc",type(e).__name__),(seed,hist[:],repr(e)[:100])); break
        after=fp(c)
        if after!=before:
            which=[i for i in range(len(before)) if before[i]!=after[i]]
            bad.setdefault((k,"changed",tuple(which)),(seed,hist[:]))
            break
for k,v in bad.items(): print(k,v)
print(len(bad))

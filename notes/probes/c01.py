import sys, warnings, random
warnings.filterwarnings("ignore")
import numpy as np, numpy
exec(open('/verif/notes/probes/c07.py').read().split("bad={}")[0])
from graphiq.circuit.circuit_dag import CircuitDAG
from graphiq.circuit import ops
from graphiq.backends.stabilizer.compiler import StabilizerCompiler
from graphiq.backends.density_matrix.compiler import DensityMatrixCompiler
G1={ops.Identity:I2.astype(complex),ops.Hadamard:H.astype(complex),ops.Phase:P,ops.PhaseDagger:P.conj().T,ops.SigmaX:X,ops.SigmaY:Y,ops.SigmaZ:Z}
class PS(StabilizerCompiler):
    def compile_one_gate(self,state,op,n,q,creg): self.creg=creg; return super().compile_one_gate(state,op,n,q,creg)
class PD(DensityMatrixCompiler):
    def compile_one_gate(self,state,op,n,q,creg): self.creg=creg; return super().compile_one_gate(state,op,n,q,creg)
def ref(prog,ne,np_,nc,det):
    n=ne+np_; idx=lambda t,r: r if t=='p' else np_+r
    psi=np.zeros(2**n,complex); psi[0]=1; c=np.zeros(nc)
    def meas(q):
        nonlocal psi
        p0=np.linalg.norm(op1(n,q,np.diag([1,0]))@psi)**2
        if p0>1-1e-9: o=0
        elif p0<1e-9: o=1
        else: o=det
        pr=op1(n,q,np.diag([1,0]) if o==0 else np.diag([0,1]))@psi; psi=pr/np.linalg.norm(pr); return o
    for op in prog:
        k=op[0]
        if k=='g1': psi=op1(n,idx(op[2],op[3]),G1[op[1]])@psi
        elif k=='w':
            U=np.eye(2,dtype=complex)
            for g in op[1]: U=U@G1[g]   # matrix product of the list: last listed acts first
            psi=op1(n,idx(op[2],op[3]),U)@psi
        elif k=='g2': psi=cu(n,idx(op[2],op[3]),idx(op[4],op[5]),X if op[1] is ops.CNOT else Z)@psi
        elif k=='cc':
            o=meas(idx(op[2],op[3])); c[op[6]]=o
            if o: psi=op1(n,idx(op[4],op[5]),X if op[1] is not ops.ClassicalCZ else Z)@psi
            if op[1] is ops.MeasurementCNOTandReset and o: psi=op1(n,idx(op[2],op[3]),X)@psi
        elif k=='m': o=meas(idx(op[1],op[2])); c[op[3]]=o
    return psi,c
fails={}
for seed in range(int(sys.argv[1])):
    rng=random.Random(seed); ne=rng.randint(1,2); np_=rng.randint(0,2); nc=rng.randint(1,2)
    regs=[('e',i) for i in range(ne)]+[('p',i) for i in range(np_)]
    prog=[]; circ=CircuitDAG(n_emitter=ne,n_photon=np_,n_classical=nc)
    for s in range(rng.randint(1,14)):
        r=rng.random()
        if r<0.45 or len(regs)<2:
            t,q=rng.choice(regs)
            if rng.random()<0.3:
                gl=[rng.choice(list(G1)) for _ in range(rng.randint(1,3))]; prog.append(('w',gl,t,q)); circ.add(ops.OneQubitGateWrapper(gl,register=q,reg_type=t))
            else:
                g=rng.choice(list(G1)); prog.append(('g1',g,t,q)); circ.add(g(register=q,reg_type=t))
        elif r<0.7:
            a,b=rng.sample(regs,2); g=rng.choice([ops.CNOT,ops.CZ]); prog.append(('g2',g,a[0],a[1],b[0],b[1])); circ.add(g(control=a[1],control_type=a[0],target=b[1],target_type=b[0]))
        elif r<0.9:
            a,b=rng.sample(regs,2); g=rng.choice([ops.ClassicalCNOT,ops.ClassicalCZ,ops.MeasurementCNOTandReset]); cr=rng.randrange(nc)
            prog.append(('cc',g,a[0],a[1],b[0],b[1],cr)); circ.add(g(control=a[1],control_type=a[0],target=b[1],target_type=b[0],c_register=cr))
        else:
            t,q=rng.choice(regs); cr=rng.randrange(nc); prog.append(('m',t,q,cr)); circ.add(ops.MeasurementZ(register=q,reg_type=t,c_register=cr))
    for det in (0,1):
        psi,c=ref(prog,ne,np_,nc,det); rho_ref=np.outer(psi,psi.conj())
        for name,C in (('stab',PS),('dm',PD)):
            comp=C(); comp.measurement_determinism=det
            try: st=comp.compile(circ)
            except Exception as e:
                fails.setdefault((name,'exc',type(e).__name__),(seed,det,[ (p[0],getattr(p[1],'__name__',p[1])) for p in prog],repr(e)[:80])); continue
            rho=st.rep_data.data if name=='dm' else proj_from_tab(st.rep_data.data)
            ok=np.allclose(rho,rho_ref,atol=1e-8)
            okc=np.array_equal(np.asarray(comp.creg,float),c)
            if not ok or not okc:
                key=(name,'state' if not ok else 'creg',det, prog[-1][0] if True else None)
                kinds=[ (p[0],getattr(p[1],'__name__',str(p[1]))) for p in prog]
                if key not in fails or len(kinds)<len(fails[key][2]): fails[key]=(seed,det,kinds)
for k,v in sorted(fails.items(),key=str): print(k,v)
print(len(fails))

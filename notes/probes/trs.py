import sys, time, warnings, itertools
warnings.filterwarnings("ignore")
import numpy as np, networkx as nx
from graphiq.solvers.time_reversed_solver import TimeReversedSolver
from graphiq.backends.stabilizer.compiler import StabilizerCompiler
from graphiq.backends.density_matrix.compiler import DensityMatrixCompiler
from graphiq.state import QuantumState
from graphiq.metrics import Infidelity
import graphiq.backends.density_matrix.functions as dmf
from graphiq.backends.state_rep_conversion import graph_to_density
rng=np.random.default_rng(int(sys.argv[1]))
bad=0; tot=0; t0=time.time()
for it in range(int(sys.argv[2])):
    n=int(rng.integers(2,7))
    p=rng.uniform(0.2,0.9)
    g=nx.gnp_random_graph(n,p,seed=int(rng.integers(1<<30)))
    target=QuantumState(g,rep_type="g")
    comp=StabilizerCompiler(); comp.measurement_determinism=1
    try:
        s=TimeReversedSolver(target=target,metric=Infidelity(target),compiler=comp)
        s.solve()
    except Exception as e:
        print("EXC",n,sorted(g.edges()),repr(e)[:100]); bad+=1; continue
    score,c=s.result
    rho_t=graph_to_density(g)
    for det in (0,1):
        d=DensityMatrixCompiler(); d.measurement_determinism=det
        st=d.compile(c)
        rho=st.rep_data.data
        nq=c.n_quantum
        red=dmf.partial_trace(rho,list(range(n)),[2]*nq) if False else None
        # own partial trace
        r=rho.reshape([2**n,2**(nq-n),2**n,2**(nq-n)])
        red=np.einsum('ajbj->ab',r)
        f=np.real(np.trace(red@rho_t))
        tot+=1
        if abs(f-1)>1e-9 or abs(score)>1e-9:
            bad+=1; print("BAD",n,sorted(g.edges()),det,round(f,4),score,c.n_emitters)
print("done",tot,bad,round(time.time()-t0,1))

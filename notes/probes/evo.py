import sys, time, hashlib, warnings
warnings.filterwarnings("ignore")
import numpy as np, networkx as nx
import graphiq as gq
from graphiq.solvers.evolutionary_solver import EvolutionarySolver, EvolutionarySolverSetting
from graphiq.solvers.hybrid_solvers import HybridEvolutionarySolver
from graphiq.backends.stabilizer.compiler import StabilizerCompiler
from graphiq.state import QuantumState
from graphiq.metrics import Infidelity
kind=sys.argv[1]; seed=int(sys.argv[2])
g=nx.Graph([(0,1),(1,2),(2,3),(3,0)])
target=QuantumState(g,rep_type="g"); target.convert_representation("s")
comp=StabilizerCompiler(); comp.measurement_determinism=1
metric=Infidelity(target)
setting=EvolutionarySolverSetting(n_hof=4,n_stop=8,n_pop=8,selection_active=True)
t=time.time()
if kind=="evo":
    s=EvolutionarySolver(target=target,metric=metric,compiler=comp,n_emitter=2,n_photon=4,solver_setting=setting)
else:
    s=HybridEvolutionarySolver(target=target,metric=metric,compiler=comp,solver_setting=setting)
s.seed(seed); s.solve()
h=hashlib.sha256()
for sc,c in s.hof:
    h.update(repr(round(float(sc),9)).encode()); h.update(c.to_openqasm().encode())
print(kind,seed,[round(float(x[0]),4) for x in s.hof],h.hexdigest()[:12],round(time.time()-t,2))

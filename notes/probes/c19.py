import sys, time, hashlib, warnings, random
warnings.filterwarnings("ignore")
import numpy as np, networkx as nx
from graphiq.solvers.evolutionary_solver import EvolutionarySolver, EvolutionarySolverSetting
from graphiq.solvers.hybrid_solvers import HybridEvolutionarySolver
from graphiq.backends.stabilizer.compiler import StabilizerCompiler
from graphiq.backends.density_matrix.compiler import DensityMatrixCompiler
from graphiq.state import QuantumState
from graphiq.metrics import Infidelity
def run(kind,g,seed,setting_kw,det,pollute,ne):
    rr=random.Random(pollute)
    for _ in range(rr.randint(0,20)): np.random.rand(); random.random()
    np.random.seed(rr.randint(0,1000)); random.seed(rr.randint(0,1000))
    target=QuantumState(g,rep_type="g"); target.convert_representation("s")
    comp=StabilizerCompiler(); comp.measurement_determinism=det
    metric=Infidelity(target)
    setting=EvolutionarySolverSetting(**setting_kw)
    snaps=[]
    K=EvolutionarySolver if kind=="evo" else HybridEvolutionarySolver
    class S(K):
        def update_logs(self,population,iteration):
            snaps.append([float(x[0]) for x in self.hof]); return super().update_logs(population,iteration)
    if kind=="evo": s=S(target=target,metric=metric,compiler=comp,n_emitter=ne,n_photon=g.number_of_nodes(),solver_setting=setting)
    else: s=S(target=target,metric=metric,compiler=comp,solver_setting=setting)
    s.seed(seed); s.solve()
    h=hashlib.sha256()
    for sc,c in s.hof:
        h.update(repr(round(float(sc),9)).encode()); h.update((c.to_openqasm() if c is not None else "None").encode())
    return s,snaps,h.hexdigest()[:12],target,comp
rng=random.Random(int(sys.argv[1])); bad=0
for it in range(int(sys.argv[2])):
    n=rng.randint(2,4); g=nx.gnp_random_graph(n,0.7,seed=rng.randint(0,10**6))
    if not nx.is_connected(g): continue
    kind=rng.choice(["evo","hyb"]); seed=rng.randint(0,99)
    kw=dict(n_hof=rng.randint(1,4),n_stop=rng.randint(2,6),n_pop=rng.randint(2,6),selection_active=rng.random()<0.5,use_adapt_probability=rng.random()<0.5,tournament_k=rng.randint(0,3))
    det=rng.choice([0,1]); ne=rng.randint(1,2)
    try:
        s1,sn1,d1,t,comp=run(kind,g,seed,kw,det,1,ne); s2,sn2,d2,_,_=run(kind,g,seed,kw,det,2,ne)
    except Exception as e:
        print("EXC",kind,sorted(g.edges()),kw,repr(e)[:200]); bad+=1; continue
    if d1!=d2: print("R1",kind,kw,d1,d2); bad+=1
    for sn in sn1:
        fin=[x for x in sn]
        if any(fin[i]>fin[i+1]+1e-12 for i in range(len(fin)-1)): print("H1",sn); bad+=1
    best=[sn[0] for sn in sn1]
    if any(best[i+1]>best[i]+1e-12 for i in range(len(best)-1)): print("H4",best); bad+=1
    for sc,c in s1.hof:
        if c is None: continue
        c2=StabilizerCompiler(); c2.measurement_determinism=det
        st=c2.compile(c); st.partial_trace(keep=list(range(c.n_photons)),dims=[2]*c.n_quantum)
        sc2=Infidelity(t).evaluate(st,c)
        if abs(sc2-sc)>1e-9: print("H2",kind,kw,sc,sc2); bad+=1
    if s1.result[0]!=s1.hof[0][0] or s1.result[1] is not s1.hof[0][1]: print("H3"); bad+=1
print("bad",bad)

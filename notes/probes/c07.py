import sys, warnings, random, itertools
warnings.filterwarnings("ignore")
import numpy as np
from graphiq.backends.stabilizer.clifford_tableau import CliffordTableau
import graphiq.backends.stabilizer.functions.clifford as sfc
import graphiq.backends.stabilizer.functions.transformation as tr
I2=np.eye(2); X=np.array([[0,1],[1,0]],complex); Y=np.array([[0,-1j],[1j,0]]); Z=np.diag([1,-1]).astype(complex)
H=np.array([[1,1],[1,-1]])/np.sqrt(2); P=np.diag([1,1j])
def op1(n,q,U):
    m=np.array([[1]],complex)
    for i in range(n): m=np.kron(m,U if i==q else I2)
    return m
def cu(n,c,t,U):
    P0=np.diag([1,0]).astype(complex); P1=np.diag([0,1]).astype(complex)
    return op1(n,c,P0)+op1(n,c,P1)@op1(n,t,U)
def pauli(n,x,z):
    m=np.array([[1]],complex)
    for i in range(n):
        a=(x[i],z[i]); m=np.kron(m,{(0,0):I2,(1,0):X,(1,1):Y,(0,1):Z}[a])
    return m
def proj_from_tab(t):
    n=t.n_qubits; rho=np.eye(2**n,dtype=complex)
    for i in range(n):
        g=pauli(n,t.stabilizer_x[i],t.stabilizer_z[i])*(-1)**int(t.phase[n+i])
        rho=rho@(np.eye(2**n)+g)/2
    return rho
def symp_ok(t):
    n=t.n_qubits; T=t.table
    if not np.isin(T,[0,1]).all() or not np.isin(t.phase,[0,1]).all(): return "nonbinary"
    J=np.block([[np.zeros((n,n)),np.eye(n)],[np.eye(n),np.zeros((n,n))]]).astype(int)
    S=(T@J@T.T)%2
    exp=np.block([[np.zeros((n,n)),np.eye(n)],[np.eye(n),np.zeros((n,n))]]).astype(int)
    return None if np.array_equal(S,exp) else "nonsymplectic"
bad={}
for seed in range(int(sys.argv[1])):
    rng=random.Random(seed); n=rng.randint(1,4)
    t=CliffordTableau(n); psi=np.zeros(2**n,complex); psi[0]=1; hist=[]
    for step in range(30):
        k=rng.choice(["h","p","pd","x","y","z","cnot","cz","mz","reset","swap","insert","remove","resetx","resety"])
        q=rng.randrange(n); 
        try:
            if k in("h","p","pd","x","y","z"):
                U={"h":H,"p":P,"pd":P.conj().T,"x":X,"y":Y,"z":Z}[k]; f={"h":tr.hadamard_gate,"p":tr.phase_gate,"pd":tr.phase_dagger_gate,"x":tr.x_gate,"y":tr.y_gate,"z":tr.z_gate}[k]
                t=f(t,q); psi=op1(n,q,U)@psi; hist.append((k,q))
            elif k in("cnot","cz") and n>1:
                c,tt=rng.sample(range(n),2); f=tr.cnot_gate if k=="cnot" else tr.control_z_gate
                t=f(t,c,tt); psi=cu(n,c,tt,X if k=="cnot" else Z)@psi; hist.append((k,c,tt))
            elif k in ("mz","reset","resetx","resety"):
                det=rng.choice([0,1])
                p0=np.linalg.norm(op1(n,q,np.diag([1,0]))@psi)**2
                if k=="mz":
                    t,out,xp=sfc.z_measurement_gate(t,q,det)
                else:
                    intended=rng.choice([0,1])
                    f={"reset":sfc.reset_z,"resetx":sfc.reset_x,"resety":sfc.reset_y}[k]
                    t=f(t,q,intended,det); 
                exp_out = (0 if p0>1-1e-9 else 1) if (p0>1-1e-9 or p0<1e-9) else det
                if k=="mz" and out!=exp_out: bad.setdefault("outcome",(seed,hist[:],k)); break
                pr=op1(n,q,np.diag([1,0]) if exp_out==0 else np.diag([0,1]))@psi; psi=pr/np.linalg.norm(pr)
                if k!="mz":
                    if exp_out!=intended: psi=op1(n,q,X)@psi
                    if k=="resetx": psi=op1(n,q,H)@psi
                    if k=="resety": psi=op1(n,q,P)@op1(n,q,H)@psi
                hist.append((k,q,det))
            elif k=="swap" and n>1:
                a,b=rng.sample(range(n),2); t=sfc.swap_gate(t,a,b)
                psi=psi.reshape([2]*n).swapaxes(a,b).reshape(-1); hist.append((k,a,b))
            elif k=="insert" and n<5:
                pos=rng.randint(0,n); t=sfc.insert_qubit(t,pos)
                psi=np.expand_dims(psi.reshape([2]*n),pos); psi=np.concatenate([psi,np.zeros_like(psi)],axis=pos).reshape(-1); n+=1; hist.append((k,pos))
            elif k=="remove" and n>1:
                # only if unentangled: check via reduced purity
                m=np.moveaxis(psi.reshape([2]*n),q,0).reshape(2,-1); rho_q=m@m.conj().T
                if abs(np.trace(rho_q@rho_q)-1)>1e-9: continue
                det=rng.choice([0,1])
                p0=np.real(rho_q[0,0])
                exp_out=(0 if p0>1-1e-9 else 1) if (p0>1-1e-9 or p0<1e-9) else det
                t=sfc.remove_qubit(t,q,det)
                pr=op1(n,q,np.diag([1,0]) if exp_out==0 else np.diag([0,1]))@psi; pr=pr/np.linalg.norm(pr)
                psi=np.take(np.moveaxis(pr.reshape([2]*n),q,0),exp_out,axis=0).reshape(-1); n-=1; hist.append((k,q,det))
            else: continue
        except Exception as e:
            bad.setdefault("exc:"+k+":"+type(e).__name__,(seed,hist[:],repr(e)[:80])); break
        if t.n_qubits!=n: bad.setdefault("nq:"+k,(seed,hist[:])); break
        s=symp_ok(t)
        if s: bad.setdefault(s+":"+k,(seed,hist[:])); break
        rho=proj_from_tab(t)
        if not np.allclose(rho,np.outer(psi,psi.conj()),atol=1e-9): bad.setdefault("state:"+k,(seed,hist[:])); break
for k,v in bad.items(): print(k,v)
print(len(bad))

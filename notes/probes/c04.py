import sys, warnings, random
warnings.filterwarnings("ignore")
import numpy as np, networkx as nx
from graphiq.circuit import ops
from graphiq.solvers.evolutionary_solver import EvolutionarySolver
from graphiq.solvers.hybrid_solvers import HybridEvolutionarySolver
from graphiq.solvers.time_reversed_solver import TimeReversedSolver
from graphiq.backends.stabilizer.compiler import StabilizerCompiler
from graphiq.state import QuantumState
from graphiq.metrics import Infidelity
TWO=(ops.ControlledPairOperationBase,ops.ClassicalControlledPairOperationBase)
def inv(c,fixed0):
    errs=[]
    try: c.validate()
    except Exception as e: errs.append("validate:"+repr(e)[:60])
    d=c.dag
    for n in d.nodes:
        op=d.nodes[n]['op']
        if isinstance(op,TWO) and op.control_type=='p' and op.target_type=='p': errs.append(f"pp two-qubit {n}")
    for p in range(c.n_photons):
        opsl,nodes=c.reg_gate_history(reg=p,reg_type='p')
        inner=opsl[1:-1]
        if not inner: errs.append(f"photon {p} never emitted"); continue
        f=inner[0]
        if not (type(f) is ops.CNOT and f.control_type=='e' and f.target_type=='p' and f.target==p): errs.append(f"photon {p} first op {type(f).__name__}")
        for o in inner[1:]:
            if isinstance(o,ops.OneQubitOperationBase): continue
            if isinstance(o,ops.ClassicalControlledPairOperationBase) and o.target_type=='p' and o.target==p and not (o.control_type=='p' and o.control==p): continue
            errs.append(f"photon {p} later op {type(o).__name__}")
    for n,opid in fixed0.items():
        if n not in d.nodes or id(d.nodes[n]['op'])!=opid:
            # replaced ops allowed for wrappers; check only CNOT emission & MeasCNOTReset
            errs.append(f"fixed node {n} gone/replaced")
    return errs
bad={}
for seed in range(int(sys.argv[1])):
    rng=random.Random(seed); np.random.seed(seed)
    n=rng.randint(2,5); g=nx.gnp_random_graph(n,0.6,seed=seed)
    if not nx.is_connected(g): continue
    target=QuantumState(g,rep_type="g"); target.convert_representation("s")
    comp=StabilizerCompiler(); metric=Infidelity(target)
    hy=HybridEvolutionarySolver(target=target,metric=metric,compiler=comp)
    if rng.random()<0.5:
        t=TimeReversedSolver(target=target,metric=metric,compiler=comp); t.solve(); c=t.result[1]
    else:
        ne=hy.n_emitter
        c=hy.initialization(hy.get_emission_assignment(n,ne),hy.get_measurement_assignment(n,ne))
    fixed0={nd:id(c.dag.nodes[nd]['op']) for nd in c.dag.nodes if isinstance(c.dag.nodes[nd]['op'],(ops.MeasurementCNOTandReset,)) or (type(c.dag.nodes[nd]['op']) is ops.CNOT and c.dag.nodes[nd]['op'].target_type=='p')}
    e=inv(c,fixed0)
    if e: bad.setdefault(("init",e[0]),(seed,)); continue
    moves=[hy.add_emitter_one_qubit_op,hy.add_emitter_cnot,hy.replace_photon_one_qubit_op,hy.add_photon_one_qubit_op,hy.remove_op,hy.add_measurement_cnot_and_reset]
    hist=[]
    for s in range(40):
        m=rng.choice(moves); hist.append(m.__name__)
        try: m(c)
        except Exception as ex: bad.setdefault(("exc",m.__name__,type(ex).__name__),(seed,hist[-4:],repr(ex)[:80])); break
        e=inv(c,fixed0)
        if e: bad.setdefault((m.__name__,e[0].split()[0]+" "+e[0].split()[-1]),(seed,s,e[:2],hist[-4:])); break
for k,v in bad.items(): print(k,v)
print(len(bad))

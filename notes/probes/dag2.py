import sys, warnings, random
warnings.filterwarnings("ignore")
import networkx as nx
from graphiq.circuit.circuit_dag import CircuitDAG
from graphiq.circuit import ops

def check(c, tag):
    d=c.dag
    errs=[]
    if not nx.is_directed_acyclic_graph(d): errs.append("cycle")
    for n,deg in d.in_degree():
        if deg==0 and not isinstance(d.nodes[n]['op'],ops.Input): errs.append(f"source {n}")
    for n,deg in d.out_degree():
        if deg==0 and not isinstance(d.nodes[n]['op'],ops.Output): errs.append(f"sink {n}")
    # wires
    for rt in 'ep':
        for r in range(len(c._registers[rt])):
            node=f"{rt}{r}_in"; path=[node]; seen=set()
            while node!=f"{rt}{r}_out":
                outs=[e for e in d.out_edges(node,keys=True) if e[2]==f"{rt}{r}"]
                if len(outs)!=1: errs.append(f"wire {rt}{r} at {node}: {len(outs)} outs"); break
                node=outs[0][1]
                if node in seen: errs.append("loop"); break
                seen.add(node); path.append(node)
            onwire=set(path[1:-1])
            acting=set()
            for n in d.nodes:
                op=d.nodes[n]['op']
                if isinstance(op,(ops.Input,ops.Output)): continue
                regs=[(t,q) for q,t in zip(op.q_registers,op.q_registers_type)]
                if (rt,r) in regs: acting.add(n)
            if onwire!=acting: errs.append(f"wire {rt}{r}: onwire {onwire} acting {acting}")
    # edge_dict
    for rt in 'epc':
        real=sorted([e for e in d.edges(keys=True) if d.edges[e]['reg_type']==rt],key=str)
        idx=sorted(c.edge_dict.get(rt,[]),key=str)
        if real!=idx: errs.append(f"edge_dict[{rt}] mismatch {set(real)^set(idx)}")
    # node_dict
    for lab,nodes in c.node_dict.items():
        for n in nodes:
            if n not in d.nodes: errs.append(f"node_dict[{lab}] stale {n}")
        if len(nodes)!=len(set(nodes)): errs.append(f"node_dict[{lab}] dup")
    for n in d.nodes:
        op=d.nodes[n]['op']
        if isinstance(op,ops.Input): labs=['Input']
        elif isinstance(op,ops.Output): labs=['Output']
        else: labs=list(op.labels)+[type(op).__name__, op.parse_q_reg_types()]
        for l in labs:
            if n not in c.node_dict.get(l,[]): errs.append(f"node {n} missing in node_dict[{l}]")
    # topological
    seq=c.sequence()
    if len(seq)!=d.number_of_nodes(): errs.append("seq len")
    if errs: print(tag, errs[:4]); return False
    return True

one=[ops.Hadamard,ops.Phase,ops.SigmaX,ops.Identity,ops.SigmaZ]
def rand_op(rng,c):
    k=rng.random()
    regs=[('e',i) for i in range(c.n_emitters)]+[('p',i) for i in range(c.n_photons)]
    if k<0.4 or len(regs)<2:
        t,r=rng.choice(regs); 
        if rng.random()<0.3:
            return ops.OneQubitGateWrapper([rng.choice(one) for _ in range(rng.randint(1,3))],register=r,reg_type=t)
        return rng.choice(one)(register=r,reg_type=t)
    a,b=rng.sample(regs,2)
    if k<0.7: return rng.choice([ops.CNOT,ops.CZ])(control=a[1],control_type=a[0],target=b[1],target_type=b[0])
    if k<0.85: return rng.choice([ops.ClassicalCNOT,ops.ClassicalCZ,ops.MeasurementCNOTandReset])(control=a[1],control_type=a[0],target=b[1],target_type=b[0],c_register=rng.randrange(max(1,c.n_classical)))
    return ops.MeasurementZ(register=a[1],reg_type=a[0],c_register=rng.randrange(max(1,c.n_classical)))

bad=0
for seed in range(int(sys.argv[1])):
    rng=random.Random(seed)
    c=CircuitDAG(n_emitter=rng.randint(1,2),n_photon=rng.randint(0,2),n_classical=rng.randint(1,2))
    hist=[]
    for step in range(25):
        k=rng.random()
        try:
            if k<0.35:
                op=rand_op(rng,c); c.add(op); hist.append(('add',type(op).__name__))
            elif k<0.55:
                op=rand_op(rng,c)
                edges=[]
                ok=True
                for q,t in zip(op.q_registers,op.q_registers_type):
                    cand=[e for e in c.edge_dict[t] if e[2]==f"{t}{q}"]
                    edges.append(rng.choice(cand))
                if len(edges)==2:
                    if edges[1] in c.find_incompatible_edges(edges[0]): 
                        continue
                # classical: insert_at ignores classical wires!
                c.insert_at(op,edges); hist.append(('ins',type(op).__name__,edges))
            elif k<0.7:
                nodes=[n for n in c.dag.nodes if isinstance(n,int)]
                if nodes: n=rng.choice(nodes); c.remove_op(n); hist.append(('rm',n))
            elif k<0.8:
                nodes=[n for n in c.dag.nodes if isinstance(n,int) and isinstance(c.dag.nodes[n]['op'],ops.OneQubitOperationBase)]
                if nodes:
                    n=rng.choice(nodes); old=c.dag.nodes[n]['op']
                    new=rng.choice(one)(register=old.register,reg_type=old.reg_type); c.replace_op(n,new); hist.append(('rep',n))
            elif k<0.87: c.unwrap_nodes(); hist.append(('unwrap',))
            elif k<0.94 and 'one-qubit' in c.node_dict and not c.node_dict.get('MeasurementZ'): c.group_one_qubit_gates(); hist.append(('group',))
            else: c.remove_identity(); hist.append(('rmid',))
        except Exception as ex:
            print(seed,step,"EXC",repr(ex)[:120],hist[-3:]); bad+=1; break
        if not check(c,(seed,step,hist[-1:])):
            bad+=1; break
print("bad",bad)

import sys, warnings, math, time
warnings.filterwarnings("ignore")
import numpy as np, networkx as nx
np.math=math
from graphiq.solvers.alternate_target_solver import AlternateTargetSolver, AlternateTargetSolverSetting
g=nx.Graph([(0,1),(1,2),(2,3),(3,4)])
for m in [None,"lc_with_iso","random","random_with_iso","random_with_rep","linear","depth_first","max edge"]:
    t=time.time()
    try:
        st=AlternateTargetSolverSetting(n_iso_graphs=3,n_lc_graphs=3,lc_method=m)
        s=AlternateTargetSolver(target=g,solver_setting=st,seed=3)
        r=s.solve()
        print(m,len(r),[ (sorted(x[1]['g'].edges()), x[1]['map']) for x in r][:2], round(time.time()-t,2))
    except Exception as e:
        print(m,"ERR",repr(e)[:150])
try:
    s=AlternateTargetSolver(target=g); print(len(s.solve()))
except Exception as e: print("default ERR",repr(e)[:100])

#!/venv/bin/python
"""regenerate /verif/MANIFEST.json from the table below (kept in one place so it stays valid)"""
import json
import os
import subprocess

HERE = os.path.dirname(os.path.dirname(os.path.abspath(__file__)))
PY = "/venv/bin/python"

CLAIMED = {
    "C01": ("§6 C01", "seeded programs x both backends x forced-0/forced-1/every leaf of the measurement-outcome tree (outcome RNG owned by the simulator), judged against an independent state-vector reference that follows the executed operation order and the outcomes handed out; classical record compared after every operation."),
    "C07": ("§6 C07", "seeded histories over the whole tableau API (three API surfaces, n up to 200) with scripted measurement outcomes, lock-step against an independent bit-row stabilizer reference; binary/symplectic/state/outcome invariants after every call; hidden-outcome calls judged against the set of legal branches."),
    "C02": ("§6 C02", "TimeReversedSolver run on seeded labelled targets (families incl. disconnected ones, three presentations, both compilers); the returned circuit is executed on every leaf of its measurement-outcome tree by three judges (independent textbook semantics, stabilizer backend, density-matrix backend) and must end in |G> x |0..0>; the reported score must be 0."),
    "C04": ("§6 C04", "seeded histories of the evolutionary/hybrid mutation moves from solver-made circuits, with every RNG draw of the moves owned by the simulator (extreme-but-legal answers injected); emission-structure invariants I1-I5 after every move."),
    "C13": ("§6 C13", "seeded user sessions over one pool of shared circuits/targets: interleavings of copy / rewrites / noisy copies / Monte-Carlo noise / compile / metric / solver calls with deliberate object re-use; observational fingerprints of every pool object compared before/after every call."),
    "C19": ("§6 C19", "each seeded solver configuration executed twice in-process under different RNG pollution before seed() and in two further interpreters with other PYTHONHASHSEED values; hall-of-fame digests must agree; per-generation hall-of-fame snapshots checked for order, honesty of stored scores, result = best, and monotone best score."),
    "C10": ("§6 C10", "AlternateTargetSolver.solve() on seeded connected targets x settings (each LC method incl. the default, counts, depth, seed, four target presentations) with all Generator/global draws owned (duplicate answers injected); every entry's circuit judged on all outcome branches against |pi(G)> built from the input edges and the entry's map, the listed graph checked against an independent LC-orbit enumeration, entries pairwise distinct."),
    "C16": ("§6 C16", "iso_finder's adaptive sampling loop and the LC-orbit explorers driven with simulator-owned Generators / global RNG, with duplicate and extreme-but-legal answers injected; results checked for input-first, count, distinctness, isomorphism (VF2) and orbit membership (independent enumeration)."),
    "C12": ("§6 C12", "seeded edit histories over the CircuitDAG API in lock-step with a per-wire reference model; acyclicity, sources/sinks, wire paths, index consistency, topological sequence and register counts after every edit."),
}
PENDING = {}
NA = {
    "C03": "pure function of one tableau / one target graph: no random draw, call history, shared mutable state, schedule or fault in the statement; deciding it needs input enumeration or proof, not simulation (DESIGN §3)",
    "C05": "pure function of two tableaux (inputs are copied before use); no nondeterminism, history or fault dimension (DESIGN §3)",
    "C06": "the noisy state is a closed-form deterministic function of (circuit, noise map, switches); 'noise' is a modelled channel, not an injected fault; nothing for a scheduler to decide (DESIGN §3)",
    "C08": "deterministic representation conversions of one input; no draw, history or interleaving (DESIGN §3)",
    "C09": "deterministic decision procedure (its 'random' mode reseeds numpy with a constant first); a relation on pairs of graphs (DESIGN §3)",
    "C11": "deterministic synthesis from one tableau; pure function (DESIGN §3)",
    "C14": "export/import round trip is a pure function of the circuit (insertion-ordered dicts + topological sort; no set iteration) (DESIGN §3)",
    "C15": "a relation on pairs/lists of circuits; no draw, history or shared state (DESIGN §3)",
    "C17": "pure numerics on density matrices (DESIGN §3)",
    "C18": "deterministic functions of one circuit (DESIGN §3)",
    "C20": "finite algebraic fact about 24 matrices; settled by enumeration, not by simulation (DESIGN §3)",
}


def main():
    checks = []
    for pid, (ref, text) in sorted(CLAIMED.items()):
        checks.append(
            {
                "property_id": pid,
                "quick_cmd": f"{PY} /verif/check.py {pid} --tier quick",
                "thorough_cmd": f"{PY} /verif/check.py {pid} --tier thorough",
                "evidence_file": f"/verif/evidence/{pid}.json",
                "replay_cmd_template": f"{PY} /verif/check.py {pid} --replay {{path}}",
                "engine": "sim",
                "level_claimed": {
                    "category": "exploration",
                    "text": "Seeded search over histories / outcome schedules / fault sequences with a reference-model oracle after every step; "
                    "a clean batch is evidence, not proof. " + text,
                    "design_ref": ref,
                },
                "level_note": "trusted base: the independent reference models in sim/ref (cross-validated against each other by `check.py selftest`), numpy, networkx, "
                "and the RNG seam owning every random draw of graphiq; interpreter pinned to PYTHONHASHSEED=0 (varied on purpose for C19)",
                "technique": "deterministic simulation with fault injection (seeded scheduler, owned RNG seam, reference-model oracle, ddmin-minimised replay)",
            }
        )
    na = [{"property_id": k, "reason": v} for k, v in sorted(NA.items())]
    na += [{"property_id": k, "reason": v} for k, v in sorted(PENDING.items())]
    commits = []
    man = {
        "version": 1,
        "setup_cmd": f"{PY} /verif/tools/setup_check.py",
        "hooks": {
            "guard": "GRAPHIQ_VERIF",
            "enable": "no source hook is needed: all seams are attribute replacement / subclassing done from /verif at run time; the checks import graphiq from GRAPHIQ_ROOT (default /repo) as it is (pure Python, nothing to build)",
            "baseline_off_cmd": "cd /repo && /venv/bin/python -m pytest -ra -q -p no:cacheprovider --timeout=900 --continue-on-collection-errors",
            "source_commits": commits,
            "add_only": True,
        },
        "engines": [
            {
                "name": "sim",
                "path": "/verif/sim",
                "serves_properties": sorted(CLAIMED),
                "kind_free_text": "single-process deterministic simulator: seeded workload/outcome/fault streams, owned RNG seam (numpy.random / random attribute replacement), "
                "lock-step reference models, ddmin shrinker, JSON replay files, fork-based batch runner",
            }
        ],
        "checks": checks,
        "not_applicable": na,
        "notes": "exit 0 = held on everything explored; exit 1 + 'VIOLATION property=<id> replay=<path>'; exit 2 = HARNESS-ERROR (never 0). "
        "known_findings.jsonl lists repaired defects ('fixed') and open findings. VERIF_SEED, VERIF_TIER, VERIF_RUNS, VERIF_BUDGET_S, GRAPHIQ_ROOT are honoured.",
    }
    with open(os.path.join(HERE, "MANIFEST.json"), "w") as f:
        json.dump(man, f, indent=1)
    print("wrote MANIFEST.json with", len(checks), "checks,", len(na), "not applicable")


if __name__ == "__main__":
    main()

#!/venv/bin/python
"""run the pinned baseline suite of /repo (guard off - there are no hooks) and compare with BASELINE.json stable_pass"""
import json, subprocess, sys, tempfile, os, xml.etree.ElementTree as ET
base = json.load(open("/root/.vp/BASELINE.json"))
out = tempfile.mktemp(suffix=".xml", dir="/var/tmp")
root = sys.argv[1] if len(sys.argv) > 1 else "/repo"  # a scratch worktree can be given for seeded-change intake
cmd = base["cmd"].replace("<file>", out).replace("cd /repo", f"cd {root}")
p = subprocess.run(cmd, shell=True, capture_output=True, text=True)
passed = set()
for tc in ET.parse(out).getroot().iter("testcase"):
    if not any(ch.tag in ("failure", "error", "skipped") for ch in tc):
        passed.add(f"{tc.get('classname')}::{tc.get('name')}")
os.remove(out)
missing = [t for t in base["stable_pass"] if t not in passed]
print(f"passed={len(passed)} stable={len(base['stable_pass'])} missing={len(missing)}")
for m in missing: print("MISSING", m)
sys.exit(1 if missing else 0)

#!/venv/bin/python
"""regenerate DESIGN.md section 13.5 (seeded changes) from seeded/NOTES.json, RESULTS_quick.json and RESULTS_quick_related.json"""
import io, json, os, re, subprocess, sys
V = os.path.dirname(os.path.dirname(os.path.abspath(__file__)))
notes = json.load(open(os.path.join(V, "seeded", "NOTES.json")))
res = json.load(open(os.path.join(V, "seeded", "RESULTS_quick.json")))
n = len(res)
missed_first = sorted(k for k in res if "missed" in notes.get(k, {}).get("remark", "") or "harness error" in notes.get(k, {}).get("remark", ""))
table = subprocess.run([sys.executable, os.path.join(V, "tools", "seeded_table.py")], capture_output=True, text=True).stdout
sec = f'''
### 13.5 Seeded changes by independent sub-agents (`seeded/`)

Seven waves of fresh sub-agents (one agent per claimed property and wave, 63 agents; the C01 agent of the last wave
found no change that the suite lets through) were given only the property text and
a scratch worktree of /repo and asked for two changes each that break the property, keep the suite green and need
something specific to manifest. Waves b to g were additionally told which ideas earlier agents had produced (never what
my checks look for) and pushed towards cooperating sites, state surviving between calls, rare branches, ordering
dependence, error paths, boundary values, tolerance, unusual-but-legal use two calls below the named mechanisms, argument forms, objects used in two places and
interactions of two public calls, refused calls after which the same objects are used on, values computed once and reused, copies, class-level state, sizes one beyond what examples use, returned objects that are internals, identifiers and counters, array types, order among equals and shared settings objects. An eighth, short wave h (five agents, one change each, 8-minute deadline; briefs in `seeded/prompts/prompt_*_h.txt`) gave three more confirmed changes (C01_h1, C13_h1, C19_h1) and two rejected at intake because the pinned suite catches them (C07_h1 `remove_qubit` row pairing: 2 stable hybrid-solver tests fail; C12_h1 `find_incompatible_edges` seeds dropped: 6 stable solver tests fail; both were nevertheless caught by the C07 / C12 quick checks). C01_h1 (deterministic Z outcome as the parity of sign bits) was MISSED by the C01 check as it stood - uniform random programs almost never make an outcome deterministic only through a product of several rows with a net i*i - and is caught since the C01 workload has measure-everything tails and compute/perturb/uncompute programs; its detection rate stays thin (about 1.5 violations per 5000 runs, so the quick tier now does 12000 runs: at 5000 runs seeds 0,1,2,4,5,6 caught it and seed 3 missed; at 12000 runs seed 3 catches it with 3 violations), which is stated rather than hidden. Every change was taken in through `tools/intake_seeded.py`: the
patch applies to /repo HEAD, `demo.py` exits 1 with it and 0 without it, and the **full pinned suite still has all 246
stable tests passing** with the change (`tools/baseline.py <scratch worktree>`); only then is it stored as
`seeded/<name>/{{patch.diff,demo.py,notes.md,meta.json}}`. {n} changes were confirmed; one more (C12_d1: `_remove_node`
pairing edges by position) was rejected at intake because two stable tests fail with it (C13_b2 had to be
re-applied by hand to lines that fix `118f47a` had rewritten in the meantime; it is stored as C13_b2p).
`tools/run_seeded.py` applies each change to a scratch worktree, runs the quick check(s) with `GRAPHIQ_ROOT` pointing
there (evidence and replays redirected), and records the outcome in `seeded/RESULTS_quick.json`; `--related` also runs the
checks whose system under simulation shares code with the property (`RESULTS_quick_related.json`, column "caught by").

Three of them (C02_a2, C02_c1, C10_d2 - all slips inside `inverse_circuit`'s pivot path) stopped being breaking changes
when fix `898a575` made `inverse_circuit` verify its own result and fall back: on the repaired tree C02_a2's demonstration
passes and the other two (one identical line, which no longer applies and was ported by hand) no longer alter behaviour.
Their rows show the result on the tree they were written for. The final regression (every change against the final checks
and the final tree, `VERIF_SEED=0`) caught all other {n - 3}.

**Result: all {n} are caught by the quick check of their own property - {n - len(missed_first)} by the checks as they stood when
the change arrived, {len(missed_first)} only after the check had been strengthened** ({", ".join(missed_first)}; the remarks
column says how). The misses had one thing in common: the *workload vocabulary* was too narrow, not the oracle. Inputs
were built in one canonical way - sorted node / edge creation order, edges listed in register order, a fresh compiler per
compile, one graph / one circuit / one `solve()` per run, seeds from 0..999, at most 6 vertices or 5 photons, product-state
tensor operands, legal edits only, no noise-carrying wrappers - and each miss was answered by turning that canonical choice
into a scheduled one (so the fix helps against the whole class, not the one change). Wave f (error paths) added one more kind of
scheduled event to several workloads: a **refused call as a fault** - an invalid compiler setting (C01), an impossible
`replace_op` between mutation moves (C04), an out-of-range qubit position (C07), a replacement on other registers (C12) -
after which the same objects are used on and must be what they were; plus solver / initial-state / graph objects that the
caller keeps and reuses or edits between calls (C01, C04, C16), circuits with two-digit register indices (C12) and the
solver's own per-generation report compared with what was observed (C19). Wave g (returned internals, shared objects)
added: a second target - a relabelled copy of the first - or a second `solve()` after a seed change inside one C10 run,
label queries whose answers the caller then edits (C12), wrappers built from shared gate-list objects and an in-place noise
edit of one operation of one pool circuit (C13), and a read-only look at insertion positions between moves (C04).
Some misses were harness problems
rather than workload gaps: a `KeyError` in my own invariant code (C12, C01: a harness error instead of a violation; the
invariant code is now total), a starting tableau silently skipped as "constructor not judged" (C07), an index invariant that
asked the operation under test for its own key (C12_e2: now derived independently), and an outcome scheduler that answered
0 to unexpected draws under forced settings and thereby hid a silently ignored setting (C01_e1: it now answers the opposite
of the forced value). Preparing the
workload for C13_b2 (mixed before/after noise placement) exposed one more genuine defect of the unchanged tree (fix
`118f47a`), and the wave-e agent for C02, while sampling 10-vertex targets for its own demonstration, ran into another one
(the unchanged solver returning a fidelity-0 circuit: `inverse_circuit`, fix `898a575`; C02's workload had stopped at 8
vertices and now goes to 10). Per-run fork isolation (`sim/core.run_isolated`) was added because of C16_a2 (state kept in a mutable default
argument): without it a violation depends on which runs happened to share a worker process and does not replay.
Two rare-input changes (C02_a2, C02_b2: about 0.1-0.3 % of the drawn targets) are caught by the quick tier for the seeds
tried but can be missed by an unlucky seed; the thorough tier (40 000 targets) finds them many times over. The same
happened once to C10_d1 in the final regression of all changes (needs a negative emitter-only generator at a time-reversed
measurement, 0.3-1 % of targets; about 2 hits in 900 runs): C10's quick tier now draws 1 400 runs with 20 % 8-vertex
targets (4-10 hits per batch over six values of VERIF_SEED).

{table}
Rejected as seeded changes (recorded for calibration): my own first version of `m02` (dropping gate *and* tableau update
of the sign repair in `_add_photon_absorption`) is an equivalent mutant for C02 - the sign is repaired by the final inverse
circuit - although, as C04_b1 shows, it does break C04 (the repair gate lands in front of the emission CNOT).
'''
p = os.path.join(V, "DESIGN.md")
s = open(p).read()
i = s.index("\n### 13.5 Seeded changes")
j = s.find("\n### 13.6", i)
s = s[:i] + sec.rstrip("\n") + "\n" + (s[j:] if j >= 0 else "")
open(p, "w").write(s)
print("13.5 regenerated:", n, "changes,", len(missed_first), "needed strengthening")

#!/venv/bin/python
"""MANIFEST.setup_cmd: nothing to build (pure Python). Verify that what the checks need is importable offline."""
import os, sys
sys.path.insert(0, os.environ.get("GRAPHIQ_ROOT", "/repo"))
sys.path.insert(0, os.path.dirname(os.path.dirname(os.path.abspath(__file__))))
import warnings; warnings.filterwarnings("ignore")
import numpy, scipy, networkx  # noqa
import graphiq  # noqa
from sim import core, seam  # noqa
from sim.ref import sv, chp, prog  # noqa
os.makedirs(os.path.join(core.VERIF_DIR, "evidence"), exist_ok=True)
os.makedirs(os.path.join(core.VERIF_DIR, "replays"), exist_ok=True)
print("setup ok: numpy", numpy.__version__, "networkx", networkx.__version__, "graphiq from", os.path.dirname(graphiq.__file__))

#!/venv/bin/python
"""
Intake of a seeded change produced by an independent sub-agent: /tmp/seeded_out/<name>/{patch.diff,demo.py,notes.md}
 -> confirm (1) the patch applies to /repo HEAD, (2) demo.py exits 1 with it and 0 without, (3) the pinned baseline suite
 still passes with it (all 246 stable tests), then store it as /verif/seeded/<name>/ with meta.json.
Usage: intake_seeded.py <name> <property> [--no-baseline]
"""
import json, os, shutil, subprocess, sys

VERIF = os.path.dirname(os.path.dirname(os.path.abspath(__file__)))
PY = "/venv/bin/python"


def sh(cmd, cwd=None, timeout=4000):
    p = subprocess.run(cmd, shell=True, cwd=cwd, capture_output=True, text=True, timeout=timeout)
    return p.returncode, p.stdout + p.stderr


def main():
    name, prop = sys.argv[1], sys.argv[2]
    src = f"/tmp/seeded_out/{name}"
    wt = f"/var/tmp/intake_wt_{name}"
    sh(f"git -C /repo worktree remove --force {wt}")
    rc, out = sh(f"git -C /repo worktree add --detach {wt} HEAD")
    assert rc == 0, out
    meta = {"property": prop, "origin": "independent sub-agent (saw only the property text and a scratch worktree)", "repo_head": sh("git -C /repo rev-parse --short HEAD")[1].strip()}
    try:
        rc, out = sh(f"git apply {src}/patch.diff", cwd=wt)
        meta["patch_applies"] = rc == 0
        if rc:
            print(name, "PATCH DOES NOT APPLY", out[-300:])
            return 1
        # PYTHONPATH=. : the demo imports graphiq from the tree it is run in
        rc_m, out_m = sh(f"PYTHONPATH={wt} timeout 900 {PY} {src}/demo.py", cwd=wt)
        rc_c, out_c = sh(f"PYTHONPATH=/repo timeout 900 {PY} {src}/demo.py", cwd="/repo")
        meta["demo_rc_with_change"] = rc_m
        meta["demo_rc_without_change"] = rc_c
        meta["demo_output_with_change"] = out_m[-600:]
        if "--no-baseline" not in sys.argv:
            rc_b, out_b = sh(f"{PY} {VERIF}/tools/baseline.py {wt}")
            meta["baseline_with_change"] = out_b.strip().splitlines()[0] if out_b.strip() else ""
            meta["baseline_ok"] = rc_b == 0
            meta["baseline_missing"] = [l for l in out_b.splitlines() if l.startswith("MISSING")]
        ok = rc_m == 1 and rc_c == 0 and meta.get("baseline_ok", True)
        meta["confirmed"] = ok
        notes = open(f"{src}/notes.md").read() if os.path.exists(f"{src}/notes.md") else ""
        meta["needs"] = notes[:1500]
        meta["ran"] = f"git apply patch.diff in a scratch worktree of /repo@{meta['repo_head']}; demo.py with/without; tools/baseline.py <worktree> (pinned suite, 246 stable tests)"
        dst = os.path.join(VERIF, "seeded", name)
        if ok:
            os.makedirs(dst, exist_ok=True)
            for f in ("patch.diff", "demo.py", "notes.md"):
                if os.path.exists(f"{src}/{f}"):
                    shutil.copy(f"{src}/{f}", dst)
            json.dump(meta, open(os.path.join(dst, "meta.json"), "w"), indent=1)
        print(name, prop, "confirmed" if ok else "REJECTED", {k: meta[k] for k in ("demo_rc_with_change", "demo_rc_without_change", "baseline_with_change", "baseline_missing") if k in meta})
        return 0 if ok else 1
    finally:
        sh(f"git -C /repo worktree remove --force {wt}")
        shutil.rmtree(wt, ignore_errors=True)


if __name__ == "__main__":
    sys.exit(main())

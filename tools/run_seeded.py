#!/venv/bin/python
"""
Evaluate the checks against the seeded changes kept under /verif/seeded/<name>/ (patch.diff, demo.py, meta.json).

For each one: make a scratch worktree of /repo under /var/tmp, apply the patch, run the demonstration (must exit 1; and
exit 0 on the unchanged tree), run the quick check of the property it breaks (and optionally all checks) with
GRAPHIQ_ROOT pointing at the scratch tree and evidence/replays redirected, record whether a VIOLATION was printed, and
remove the scratch tree.  Usage: run_seeded.py [--all-checks] [--tier quick|thorough] [names...]
"""
import json
import os
import shutil
import subprocess
import sys
import time

VERIF = os.path.dirname(os.path.dirname(os.path.abspath(__file__)))
PY = "/venv/bin/python"
ALL = ["C01", "C02", "C04", "C07", "C10", "C12", "C13", "C16", "C19"]
# checks whose system under simulation shares code with the property's anchors (cheaper than the full matrix)
RELATED = {"C01": ["C01", "C07", "C02"], "C02": ["C02", "C04", "C10"], "C04": ["C04", "C12", "C02", "C19"], "C07": ["C07", "C01", "C02"],
           "C10": ["C10", "C16", "C02"], "C12": ["C12", "C04", "C13"], "C13": ["C13", "C12", "C01"], "C16": ["C16", "C10"], "C19": ["C19", "C04"]}


def sh(cmd, cwd=None, env=None, timeout=3000):
    p = subprocess.run(cmd, shell=True, cwd=cwd, env=env, capture_output=True, text=True, timeout=timeout)
    return p.returncode, p.stdout + p.stderr


def main(argv):
    all_checks = "--all-checks" in argv
    related = "--related" in argv
    tier = "quick"
    if "--tier" in argv:
        tier = argv[argv.index("--tier") + 1]
    sub = "seeded"
    if "--dir" in argv:
        sub = argv[argv.index("--dir") + 1]
    names = [a for a in argv if not a.startswith("--") and a not in ("quick", "thorough", sub)]
    seeded = os.path.join(VERIF, sub)
    names = names or sorted(d for d in os.listdir(seeded) if os.path.isdir(os.path.join(seeded, d)))
    results = {}
    for name in names:
        d = os.path.join(seeded, name)
        meta = json.load(open(os.path.join(d, "meta.json")))
        wt = f"/var/tmp/seeded_wt_{name}_{os.getpid()}"
        sh(f"git -C /repo worktree remove --force {wt}")
        rc, out = sh(f"git -C /repo worktree add --detach {wt} HEAD")
        if rc:
            print(name, "worktree failed", out[-300:])
            continue
        try:
            rc, out = sh(f"git apply {os.path.join(d, 'patch.diff')}", cwd=wt)
            if rc:
                results[name] = {"error": "patch does not apply: " + out[-300:]}
                print(name, results[name])
                continue
            res = {"property": meta["property"]}
            if os.path.exists(os.path.join(d, "demo.py")):
                rc_m, _ = sh(f"PYTHONPATH={wt} timeout 900 {PY} {os.path.join(d, 'demo.py')}", cwd=wt)
                rc_c, _ = sh(f"PYTHONPATH=/repo timeout 900 {PY} {os.path.join(d, 'demo.py')}", cwd="/repo")
                res["demo_on_mutant_rc"] = rc_m
                res["demo_on_clean_rc"] = rc_c
            env = dict(os.environ)
            env.update({"GRAPHIQ_ROOT": wt, "VERIF_EVIDENCE_DIR": f"/var/tmp/seeded_ev_{os.getpid()}", "VERIF_REPLAY_DIR": f"/var/tmp/seeded_rp_{os.getpid()}", "VERIF_SHRINK_S": "20"})
            checks = ALL if all_checks else (RELATED[meta["property"]] if related else [meta["property"]])
            res["checks"] = {}
            for pid in checks:
                t0 = time.time()
                rc, out = sh(f"timeout 3000 {PY} {os.path.join(VERIF, 'check.py')} {pid} --tier {tier}", cwd=VERIF, env=env)
                viol = [l for l in out.splitlines() if l.startswith("VIOLATION")]
                first = next((l for l in out.splitlines() if l.startswith("violation invariant=")), "")
                res["checks"][pid] = {"rc": rc, "violation_lines": len(viol), "first": first[:200], "wall_s": round(time.time() - t0, 1)}
            res["caught_by"] = sorted(p for p, r in res["checks"].items() if r["rc"] == 1 and r["violation_lines"])
            results[name] = res
            print(name, meta["property"], "caught_by", res["caught_by"], "demo", res.get("demo_on_mutant_rc"), res.get("demo_on_clean_rc"), {p: (r["rc"], r["wall_s"]) for p, r in res["checks"].items()})
        finally:
            sh(f"git -C /repo worktree remove --force {wt}")
            shutil.rmtree(wt, ignore_errors=True)
    shutil.rmtree(f"/var/tmp/seeded_ev_{os.getpid()}", ignore_errors=True)
    shutil.rmtree(f"/var/tmp/seeded_rp_{os.getpid()}", ignore_errors=True)
    vs = os.environ.get("VERIF_SEED", "0")
    outp = os.path.join(seeded, f"RESULTS_{tier}{'_all' if all_checks else ('_related' if related else '')}{'' if vs == '0' else '_seed' + vs}.json")
    old = {}
    if os.path.exists(outp):
        old = json.load(open(outp))
    old.update(results)
    json.dump(old, open(outp, "w"), indent=1, sort_keys=True)
    return 0


if __name__ == "__main__":
    sys.exit(main(sys.argv[1:]))

#!/bin/bash
# sequential thorough sweep of every claimed property (used through `vp run`); VERIF_SEED taken from $1 (default 0)
SEED=${1:-0}
cd "$(dirname "$0")/.."
for p in C12 C07 C01 C02 C04 C16 C10 C13 C19; do
  echo "=== $p seed=$SEED $(date +%T)"
  VERIF_SEED=$SEED VERIF_EVIDENCE_DIR=$PWD/soak_evidence_$SEED VERIF_REPLAY_DIR=$PWD/soak_replays_$SEED timeout 3000 /venv/bin/python check.py $p --tier thorough 2>&1 | grep -v "^WARNING" | tail -15
  echo "=== $p exit=${PIPESTATUS[0]}"
done

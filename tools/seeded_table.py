#!/venv/bin/python
"""print the markdown table of seeded changes (seeded/*/meta.json + seeded/RESULTS_quick.json [+ _all]) for DESIGN.md 13.5"""
import json, os, re
V = os.path.dirname(os.path.dirname(os.path.abspath(__file__)))
res = json.load(open(os.path.join(V, "seeded", "RESULTS_quick.json")))
allp = os.path.join(V, "seeded", "RESULTS_quick_related.json")
resall = json.load(open(allp)) if os.path.exists(allp) else {}
notes = json.load(open(os.path.join(V, "seeded", "NOTES.json")))
print("| change | property | what it breaks (file: mechanism) | needs | caught by (quick tier) | first alarm | remarks |")
print("|---|---|---|---|---|---|---|")
for name in sorted(res):
    m = json.load(open(os.path.join(V, "seeded", name, "meta.json")))
    n = notes.get(name, {})
    r = res[name]
    first = r["checks"][m["property"]]["first"]
    inv = re.search(r"invariant=(\S+)", first)
    caught = sorted(set(r["caught_by"]) | set(resall.get(name, {}).get("caught_by", [])))
    print(f"| {name} | {m['property']} | {n.get('what','')} | {n.get('needs','')} | {', '.join(caught) or 'MISSED'} | {inv.group(1) if inv else ''} | {n.get('remark','')} |")

#!/venv/bin/python
"""
Entry point of the verification machinery.

  check.py <ID> [--tier quick|thorough]      run the seeded simulation batch for one property
  check.py <ID> --replay <file>              re-execute one recorded case (exit 1 if it still violates)
  check.py selftest [--fast]                 determinism + reference-model validation

exit 0: property held on everything explored (KNOWN-FINDING lines possible)
exit 1: VIOLATION property=<id> replay=<path>
exit 2: HARNESS-ERROR (bug/timeout of the machinery; never 0, never a VIOLATION line)
"""
import json
import os
import subprocess
import sys

HERE = os.path.dirname(os.path.abspath(__file__))
PIN = {
    "PYTHONHASHSEED": "0",
    "PYTHONDONTWRITEBYTECODE": "1",
    "OMP_NUM_THREADS": "1",
    "OPENBLAS_NUM_THREADS": "1",
    "MKL_NUM_THREADS": "1",
    "MPLBACKEND": "Agg",
}


def _pin_interpreter():
    """re-exec once so that hash order and BLAS threading are fixed; VERIF_HASHSEED overrides (used by self-tests)"""
    want = dict(PIN)
    if os.environ.get("VERIF_HASHSEED"):
        want["PYTHONHASHSEED"] = os.environ["VERIF_HASHSEED"]
    if all(os.environ.get(k) == v for k, v in want.items()):
        return
    env = dict(os.environ)
    env.update(want)
    os.execve(sys.executable, [sys.executable] + sys.argv, env)


def _setup_path():
    root = os.environ.get("GRAPHIQ_ROOT", "/repo")
    sys.path.insert(0, HERE)
    sys.path.insert(0, root)
    import warnings

    warnings.filterwarnings("ignore")
    import graphiq

    gfile = os.path.realpath(graphiq.__file__)
    if not gfile.startswith(os.path.realpath(root) + os.sep):
        print(f"HARNESS-ERROR graphiq imported from {gfile}, expected under {root}")
        sys.exit(2)


def main(argv):
    if len(argv) < 2:
        print(__doc__)
        return 2
    _pin_interpreter()
    _setup_path()
    from sim import core

    if argv[1] == "selftest":
        from sim import selftest

        return selftest.main(argv[2:])

    pid = argv[1].upper()
    tier = os.environ.get("VERIF_TIER", "quick")
    replay = None
    digests_n = None
    i = 2
    while i < len(argv):
        if argv[i] == "--tier":
            tier = argv[i + 1]
            i += 2
        elif argv[i] == "--replay":
            replay = argv[i + 1]
            i += 2
        elif argv[i] == "--digests":
            digests_n = int(argv[i + 1])
            i += 2
        else:
            print("unknown argument", argv[i])
            return 2
    mod = core.load_prop(pid)

    if replay:
        rec = json.load(open(replay))
        res = core.run_one(mod, rec["case"])
        want = rec.get("expected", {}).get("invariant")
        print(f"replay digest={res['digest']} recorded={rec.get('digest')}")
        for v in res["violations"]:
            print(f"  violation invariant={v['invariant']} step={v['step']} sig={v['sig']} detail={v['detail'][:300]}")
        if any(v["invariant"] == want for v in res["violations"]) or (want is None and res["violations"]):
            print(f"VIOLATION property={pid} replay={replay}")
            return 1
        print("replay: the recorded violation did not occur")
        return 0

    if digests_n is not None:
        # self-test helper: event-log digests of the first N runs, nothing else (no evidence file is written)
        records, _, _ = core.run_batch(pid, tier, int(os.environ.get("VERIF_SEED", "0")), digests_n, 3600)
        print("DIGESTS " + json.dumps([[r["i"], r.get("digest"), r.get("nviol"), r.get("harness_error")] for r in records]))
        return 0

    verif_seed = int(os.environ.get("VERIF_SEED", "0"))
    n_runs = int(os.environ.get("VERIF_RUNS", mod.RUNS[tier]))
    budget = float(os.environ.get("VERIF_BUDGET_S", mod.BUDGET[tier]))
    print(f"property={pid} tier={tier} VERIF_SEED={verif_seed} runs={n_runs} budget_s={budget} graphiq_root={os.environ.get('GRAPHIQ_ROOT', '/repo')}")
    try:
        records, truncated, wall = core.run_batch(pid, tier, verif_seed, n_runs, budget)
    except core.HarnessError as e:
        print(f"HARNESS-ERROR {e}")
        return 2

    herr = [r for r in records if "harness_error" in r]
    findings = core.load_findings(pid)
    known_hits = {}
    fresh = []  # (record, violation)
    for r in records:
        for v in r.get("violations", []):
            f = next((f for f in findings if core.covered_by(f, v)), None)
            if f is not None:
                known_hits[f["id"]] = known_hits.get(f["id"], 0) + 1
            else:
                fresh.append((r, v))
    for f in findings:
        if f["id"] in known_hits:
            print(f"KNOWN-FINDING: property={pid} {f['title']} [{f['id']}, seen {known_hits[f['id']]}x]")

    n_viol = len(fresh)
    if fresh:
        from collections import Counter

        cls = Counter((v["invariant"], json.dumps(v["sig"], sort_keys=True)) for _, v in fresh)
        for (inv, sg), c in cls.most_common(25):
            print(f"  class {inv} {sg}: {c}")
    replays = []
    if fresh:
        seen_inv = []
        for r, v in fresh:
            key = (v["invariant"], json.dumps(v["sig"], sort_keys=True))
            if key in seen_inv:
                continue
            seen_inv.append(key)
            if len(seen_inv) > 3:
                break
            case, evals = core.shrink(mod, r["case"], v["invariant"], budget_s=float(os.environ.get("VERIF_SHRINK_S", 60)))
            res = core.run_isolated(mod, case)
            vv = next((x for x in res["violations"] if x["invariant"] == v["invariant"]), v)
            rdir = os.environ.get("VERIF_REPLAY_DIR") or os.path.join(HERE, "replays")
            os.makedirs(rdir, exist_ok=True)
            path = os.path.join(rdir, f"{pid}-{verif_seed}-{r['i']}-{v['invariant']}.json")
            with open(path, "w") as fh:
                json.dump(
                    {
                        "property": pid,
                        "verif_seed": verif_seed,
                        "run_index": r["i"],
                        "run_seed": r["run_seed"],
                        "pythonhashseed": os.environ.get("PYTHONHASHSEED"),
                        "case": case,
                        "expected": vv,
                        "digest": res["digest"],
                        "shrink_evaluations": evals,
                        "original_case_size": len(json.dumps(r["case"], default=core._default)),
                    },
                    fh,
                    indent=1,
                    default=core._default,
                )
            # replay in a fresh interpreter
            p = subprocess.run(
                [sys.executable, os.path.join(HERE, "check.py"), pid, "--replay", path],
                capture_output=True,
                text=True,
                timeout=600,
            )
            stable = p.returncode == 1 and f"digest={res['digest']}" in p.stdout
            print(f"violation invariant={vv['invariant']} run={r['i']} step={vv['step']} sig={vv['sig']}")
            print(f"  detail: {vv['detail'][:400]}")
            if not stable:
                print(f"  WARNING replay in a fresh interpreter was not identical (rc={p.returncode})")
            print(f"VIOLATION property={pid} replay={path}")
            replays.append(path)

    path = core.write_evidence(
        pid, tier, verif_seed, mod, records, truncated, wall, n_runs, n_viol, known_hits,
        extra={"replays": replays} if replays else None,
    )
    ok = [r for r in records if "digest" in r]
    print(
        f"runs={len(records)} ok={len(ok)} nontrivial_distinct={len({r['digest'] for r in ok if r['nontrivial']})} "
        f"violations={n_viol} known={sum(known_hits.values())} harness_errors={len(herr)} truncated={truncated} wall={wall:.1f}s evidence={path}"
    )
    if herr:
        print("HARNESS-ERROR", herr[0]["harness_error"][-800:])
        return 2
    if len(ok) < 2:
        print("HARNESS-ERROR fewer than 2 runs completed")
        return 2
    return 1 if fresh else 0


if __name__ == "__main__":
    sys.exit(main(sys.argv))
